// C11: a Bundle is the direct product of its element groups.
#include "groups.h"
using namespace gx;
#ifndef LAYOUT
#define LAYOUT SO2t,SE3t,R3t
#endif
#ifndef LNAME
#define LNAME L0
#endif
template<class... Tg> struct Sum; template<> struct Sum<>{ enum{DoF=0,Rep=0,Dim=0,Alg=0}; };
template<class A,class... Tg> struct Sum<A,Tg...>{ enum{DoF=A::DoF+Sum<Tg...>::DoF, Rep=A::Rep+Sum<Tg...>::Rep, Dim=A::P+Sum<Tg...>::Dim, Alg=A::A+Sum<Tg...>::Alg}; };
template<class S,class... Tg> struct BL {
  typedef manif::Bundle<S, Tg::template G...> B; typedef manif::BundleTangent<S, Tg::template G...> BT;
  enum{N=sizeof...(Tg), DoF=Sum<Tg...>::DoF, Rep=Sum<Tg...>::Rep, Dim=Sum<Tg...>::Dim, Alg=Sum<Tg...>::Alg};
  typedef std::tuple<typename Tg::template G<S>...> Els; typedef std::tuple<typename Tg::template T<S>...> Tans; typedef std::tuple<Tg...> Tags;
};
// element-wise data: standalone elements / tangents over the same symbols
template<int I,int N,class L,class S> struct Each {
  typedef typename std::tuple_element<I,typename L::Tags>::type Tg;
  enum{D=Tg::DoF,Rp=Tg::Rep,P=Tg::P,A=Tg::A};
  template<class R> static void make(R& rec,const std::string& p,int w,typename L::Els& els,Mat<S,L::Rep,1>& c,int off){
    std::get<I>(els)=Tg::make(rec,p+std::to_string(I),(w+I)%4); c.template segment<Rp>(off)=std::get<I>(els).coeffs(); Each<I+1,N,L,S>::make(rec,p,w,els,c,off+Rp); }
  template<class R> static void maket(R& rec,const std::string& p,int w,typename L::Tans& ts,Mat<S,L::DoF,1>& c,int off){
    std::get<I>(ts)=Tg::maket(rec,p+std::to_string(I),(w+I)%4); c.template segment<D>(off)=std::get<I>(ts).coeffs(); Each<I+1,N,L,S>::maket(rec,p,w,ts,c,off+D); }
  // generic visitor: f(tag, index, dof offset, rep offset, dim offset, alg offset)
  template<class F> static void visit(F& f,int od,int orp,int odim,int oa){ f.template operator()<Tg,I>(od,orp,odim,oa); Each<I+1,N,L,S>::visit(f,od+D,orp+Rp,odim+P,oa+A); }
};
template<int N,class L,class S> struct Each<N,N,L,S>{
  template<class R> static void make(R&,const std::string&,int,typename L::Els&,Mat<S,L::Rep,1>&,int){}
  template<class R> static void maket(R&,const std::string&,int,typename L::Tans&,Mat<S,L::DoF,1>&,int){}
  template<class F> static void visit(F&,int,int,int,int){} };

template<class S,class L> struct Ctx {
  typedef typename L::B B; typedef typename L::BT BT; typedef Mat<S,L::DoF,L::DoF> Jac;
  hx::Rec<S>& R; typename L::Els xa,xb; typename L::Tans ta; B X,Y; BT t; Mat<S,L::Dim,1> p;
  Ctx(hx::Rec<S>& r):R(r){ Mat<S,L::Rep,1> ca,cb; Mat<S,L::DoF,1> ct;
    Each<0,L::N,L,S>::make(R,"a",0,xa,ca,0); Each<0,L::N,L,S>::make(R,"b",1,xb,cb,0); Each<0,L::N,L,S>::maket(R,"t",1,ta,ct,0);
    X=B(ca); Y=B(cb); t=BT(ct); for(int i=0;i<L::Dim;i++) p(i)=R.var("p"+std::to_string(i),0.5+0.25*i); }
};
#define VIS(NAME, BODY) template<class S,class L,int OP> struct NAME { Ctx<S,L>& c; std::string pre; template<class Tg,int I> void operator()(int od,int orp,int odim,int oa){ enum{D=Tg::DoF,Rp=Tg::Rep,P=Tg::P,A=Tg::A}; auto& xa=std::get<I>(c.xa); auto& xb=std::get<I>(c.xb); auto& ta=std::get<I>(c.ta); std::string n=pre+"["+std::to_string(I)+"]"; typedef typename Tg::template G<S>::Jacobian EJ; BODY } };
#define SEG(v,off,len) (v).template segment<len>(off)
#define BLK(m,r,c_,nr,nc) (m).template block<nr,nc>(r,c_)
// expected block-diagonal Jacobian assembled from element Jacobians, exact zeros elsewhere
VIS(V_values,
  if(OP==0) hx::eqm(c.R,n+".inverse", SEG(c.X.inverse().coeffs(),orp,Rp), xa.inverse().coeffs());
  if(OP==1) hx::eqm(c.R,n+".compose", SEG(c.X.compose(c.Y).coeffs(),orp,Rp), xa.compose(xb).coeffs());
  if(OP==2) hx::eqm(c.R,n+".between", SEG(c.X.between(c.Y).coeffs(),orp,Rp), xa.between(xb).coeffs());
  if(OP==3) hx::eqm(c.R,n+".rplus", SEG(c.X.rplus(c.t).coeffs(),orp,Rp), xa.rplus(ta).coeffs());
  if(OP==4) hx::eqm(c.R,n+".lplus", SEG(c.X.lplus(c.t).coeffs(),orp,Rp), xa.lplus(ta).coeffs());
  if(OP==5) hx::eqm(c.R,n+".exp", SEG(c.t.exp().coeffs(),orp,Rp), ta.exp().coeffs());
  if(OP==6) hx::eqm(c.R,n+".act", SEG(c.X.act(c.p),odim,P), xa.act(Mat<S,P,1>(SEG(c.p,odim,P))));
  if(OP==7) hx::eqm(c.R,n+".element", c.X.template element<I>().coeffs(), xa.coeffs());
  if(OP==7) c.R.eq(n+".offset", S((double)(c.X.template element<I>().data()-c.X.data())), S((double)orp));
  if(OP==7) c.R.eq(n+".toffset", S((double)(c.t.template element<I>().data()-c.t.data())), S((double)od));
)
VIS(V_logs,
  if(OP==0) hx::eqm(c.R,n+".log", SEG(c.X.log().coeffs(),od,D), xa.log().coeffs());
  if(OP==1) hx::eqm(c.R,n+".rminus", SEG(c.X.rminus(c.Y).coeffs(),od,D), xa.rminus(xb).coeffs());
)
template<class S,class L> struct CtxJ : Ctx<S,L> { typedef Mat<S,L::DoF,L::DoF> Jac; Jac E[13]; CtxJ(hx::Rec<S>& r):Ctx<S,L>(r){ for(auto& m:E) m.setZero(); } };
template<class S,class L> struct CtxH : Ctx<S,L> { Mat<S,L::Alg,L::Alg> H; CtxH(hx::Rec<S>& r):Ctx<S,L>(r){ H.setZero(); } };
// expected block-diagonal matrices assembled from the stand-alone elements (exact zeros elsewhere)
template<class S,class LT,int OP> struct VJ { CtxJ<S,LT>& c; template<class Tg,int I> void operator()(int od,int orp,int odim,int oa){ enum{D=Tg::DoF}; auto& xa=std::get<I>(c.xa); auto& xb=std::get<I>(c.xb); auto& ta=std::get<I>(c.ta); typedef typename Tg::template G<S>::Jacobian EJ; EJ e,e2;
    if(OP==0){ xa.inverse(e); BLK(c.E[0],od,od,D,D)=e; BLK(c.E[4],od,od,D,D)=xa.adj(); BLK(c.E[10],od,od,D,D)=Tg::template T<S>::InnerWeights(); }
    if(OP==1){ xa.compose(xb,e,e2); BLK(c.E[1],od,od,D,D)=e; BLK(c.E[2],od,od,D,D)=e2; }
    if(OP==2){ ta.exp(e); BLK(c.E[3],od,od,D,D)=e; }
    if(OP==3){ BLK(c.E[5],od,od,D,D)=ta.rjac(); BLK(c.E[6],od,od,D,D)=ta.ljac(); BLK(c.E[9],od,od,D,D)=ta.smallAdj(); }
    if(OP==4){ BLK(c.E[7],od,od,D,D)=ta.rjacinv(); BLK(c.E[8],od,od,D,D)=ta.ljacinv(); }
    if(OP==5){ xa.rplus(ta,e,e2); BLK(c.E[11],od,od,D,D)=e; BLK(c.E[12],od,od,D,D)=e2; } } };
template<class S,class LT> struct VH { CtxH<S,LT>& c; template<class Tg,int I> void operator()(int od,int orp,int odim,int oa){ enum{A=Tg::A}; BLK(c.H,oa,oa,A,A)=std::get<I>(c.ta).hat(); } };
template<class S,class LT> struct VLJ { CtxJ<S,LT>& c; template<class Tg,int I> void operator()(int od,int orp,int odim,int oa){ enum{D=Tg::DoF}; typename Tg::template G<S>::Jacobian e; std::get<I>(c.xa).log(e); BLK(c.E[0],od,od,D,D)=e; } };
template<class S,class LT,int OP> void c11_values(hx::Rec<S>& R){ Ctx<S,LT> c(R); V_values<S,LT,OP> v{c,"el"}; Each<0,LT::N,LT,S>::visit(v,0,0,0,0); }
template<class S,class LT,int OP> void c11_logs(hx::Rec<S>& R){ Ctx<S,LT> c(R); V_logs<S,LT,OP> v{c,"el"}; Each<0,LT::N,LT,S>::visit(v,0,0,0,0); }
template<class S,class LT,int OP> void c11_jacs(hx::Rec<S>& R){ typedef Mat<S,LT::DoF,LT::DoF> Jac;
  CtxJ<S,LT> c(R); VJ<S,LT,OP> v2{c};
  Each<0,LT::N,LT,S>::visit(v2,0,0,0,0);
  Jac J,J2;
  if(OP==0){ c.X.inverse(J); hx::eqm(R,"J.inverse",J,c.E[0]); hx::eqm(R,"adj",c.X.adj(),c.E[4]); hx::eqm(R,"InnerWeights",LT::BT::InnerWeights(),c.E[10]); }
  if(OP==1){ c.X.compose(c.Y,J,J2); hx::eqm(R,"J.compose.a",J,c.E[1]); hx::eqm(R,"J.compose.b",J2,c.E[2]); }
  if(OP==2){ c.t.exp(J); hx::eqm(R,"J.exp",J,c.E[3]); }
  if(OP==3){ hx::eqm(R,"rjac",c.t.rjac(),c.E[5]); hx::eqm(R,"ljac",c.t.ljac(),c.E[6]); hx::eqm(R,"smallAdj",c.t.smallAdj(),c.E[9]); }
  if(OP==4){ hx::eqm(R,"rjacinv",c.t.rjacinv(),c.E[7]); hx::eqm(R,"ljacinv",c.t.ljacinv(),c.E[8]); }
  if(OP==5){ c.X.rplus(c.t,J,J2); hx::eqm(R,"J.rplus.m",J,c.E[11]); hx::eqm(R,"J.rplus.t",J2,c.E[12]); }
}
template<class S,class LT> void c11_hat(hx::Rec<S>& R){ CtxH<S,LT> c(R); VH<S,LT> v2{c};
  Each<0,LT::N,LT,S>::visit(v2,0,0,0,0);
  hx::eqm(R,"hat",c.t.hat(),c.H);
  typename LT::BT u; u.setVee(c.t.hat()); hx::eqm(R,"vee",u.coeffs(),c.t.coeffs());
  Mat<S,LT::Alg,LT::Alg> sum=Mat<S,LT::Alg,LT::Alg>::Zero(); for(int i=0;i<LT::DoF;i++) sum+=c.t.coeffs()(i)*LT::BT::Generator(i);
  hx::eqm(R,"generators",c.t.hat(),sum);
}
template<class S,class LT> void c11_logjac(hx::Rec<S>& R){ typedef Mat<S,LT::DoF,LT::DoF> Jac; CtxJ<S,LT> c(R); VLJ<S,LT> v2{c};
  Each<0,LT::N,LT,S>::visit(v2,0,0,0,0);
  Jac J; c.X.log(J); hx::eqm(R,"J.log",J,c.E[0]);
}
struct LTAG { static const char* nm(){ return HX_STR(LNAME); } };
#define REG(fn) static hx::Reg HX_CAT(reg_,fn)(std::string(#fn ".")+HX_STR(LNAME), [](hx::Rec<HS>& r){ fn<HS,BL<HS,LAYOUT>>(r); });
#define REGO(fn,op) static hx::Reg HX_CAT(HX_CAT(reg_,fn),op)(std::string(#fn #op ".")+HX_STR(LNAME), [](hx::Rec<HS>& r){ fn<HS,BL<HS,LAYOUT>,op>(r); });
REGO(c11_values,0) REGO(c11_values,1) REGO(c11_values,2) REGO(c11_values,3) REGO(c11_values,4) REGO(c11_values,5) REGO(c11_values,6) REGO(c11_values,7)
REGO(c11_logs,0) REGO(c11_logs,1)
REGO(c11_jacs,0) REGO(c11_jacs,1) REGO(c11_jacs,2) REGO(c11_jacs,3) REGO(c11_jacs,4) REGO(c11_jacs,5)
REG(c11_hat) REG(c11_logjac)
HX_MAIN
