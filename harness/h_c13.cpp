// C13: construction, accessors, conversions, validation.
#include "groups.h"
using namespace gx;
using std::sin; using std::cos;
template<class S> Mat<S,2,2> R2(const S& c,const S& s){ Mat<S,2,2> m; m<<c,-s,s,c; return m; }
template<class S> Mat<S,3,3> Rx(const S& a){ Mat<S,3,3> m; S z(0.0),o(1.0); m<<o,z,z, z,cos(a),-sin(a), z,sin(a),cos(a); return m; }
template<class S> Mat<S,3,3> Ry(const S& a){ Mat<S,3,3> m; S z(0.0),o(1.0); m<<cos(a),z,sin(a), z,o,z, -sin(a),z,cos(a); return m; }
template<class S> Mat<S,3,3> Rz(const S& a){ Mat<S,3,3> m; S z(0.0),o(1.0); m<<cos(a),-sin(a),z, sin(a),cos(a),z, z,z,o; return m; }
template<class S,class M> void orthonormal(hx::Rec<S>& R,const std::string& n,const M& Rm){
  typedef Mat<S,M::RowsAtCompileTime,M::RowsAtCompileTime> MM;
  hx::eqm(R,n+".RtR",(Rm.transpose()*Rm).eval(),MM(MM::Identity())); R.eq(n+".det",Rm.determinant(),S(1.0)); }
ENTRY(c13_so2_angle){ R.note("no_inverse_polar","1");
  S th=R.var("th",0.7); manif::SO2<S> X(th);
  R.eq("real",X.real(),cos(th)); R.eq("imag",X.imag(),sin(th));
  hx::eqm(R,"rotation",X.rotation(),R2<S>(cos(th),sin(th))); orthonormal(R,"rot",X.rotation());
  Mat<S,3,3> T=Mat<S,3,3>::Identity(); T.template topLeftCorner<2,2>()=R2<S>(cos(th),sin(th)); hx::eqm(R,"transform",X.transform(),T);
}
ENTRY(c13_so2_angle_back){
  S th=R.var("th",0.7); R.assume(S(-3.14159265),0,th); R.assume(th,1,S(3.14159265));
  manif::SO2<S> X(th); R.eq("angle",X.angle(),th);
  manif::SO2<S> Y(X.angle()); hx::eqm(R,"feed_back",Y.coeffs(),X.coeffs());
}
ENTRY(c13_so2_complex){ R.note("no_inverse_polar","1");
  auto c=unitc(R,"a",1); manif::SO2<S> X(c(0),c(1));
  R.eq("real",X.real(),c(0)); R.eq("imag",X.imag(),c(1)); hx::eqm(R,"rotation",X.rotation(),R2<S>(c(0),c(1))); orthonormal(R,"rot",X.rotation());
  manif::SO2<S> Y(X.angle()); hx::eqm(R,"feed_back",Y.coeffs(),X.coeffs());
  manif::SO2<S> Z=X.template cast<S>(); hx::eqm(R,"cast",Z.coeffs(),X.coeffs());
}
ENTRY(c13_se2){ R.note("no_inverse_polar","1");
  S x=R.var("x",1.5),y=R.var("y",-2.5),th=R.var("th",0.7); auto c=unitc(R,"a",1);
  manif::SE2<S> A(x,y,th);
  R.eq("A.x",A.x(),x); R.eq("A.y",A.y(),y); R.eq("A.real",A.real(),cos(th)); R.eq("A.imag",A.imag(),sin(th));
  hx::eqm(R,"A.rotation",A.rotation(),R2<S>(cos(th),sin(th))); Mat<S,2,1> t; t<<x,y; hx::eqm(R,"A.translation",A.translation(),t);
  Mat<S,3,3> T=Mat<S,3,3>::Identity(); T.template topLeftCorner<2,2>()=R2<S>(cos(th),sin(th)); T(0,2)=x; T(1,2)=y; hx::eqm(R,"A.transform",A.transform(),T); hx::eqm(R,"A.isometry",A.isometry().matrix(),T);
  manif::SE2<S> B(x,y,c(0),c(1)); R.eq("B.real",B.real(),c(0)); R.eq("B.imag",B.imag(),c(1)); R.eq("B.x",B.x(),x);
  manif::SE2<S> C(t,std::complex<S>(c(0),c(1))); hx::eqm(R,"C",C.coeffs(),B.coeffs());
  manif::SE2<S> D(x,y,std::complex<S>(c(0),c(1))); hx::eqm(R,"D",D.coeffs(),B.coeffs());
  Eigen::Transform<S,2,Eigen::Isometry> h; h.matrix()=Mat<S,3,3>::Identity(); h.matrix().template topLeftCorner<2,2>()=R2<S>(c(0),c(1)); h.matrix()(0,2)=x; h.matrix()(1,2)=y;
  manif::SE2<S> E(h); hx::eqm(R,"E.transform",E.transform(),h.matrix());
  manif::SE2<S> F(B.isometry()); hx::eqm(R,"feed_back",F.transform(),B.transform());
  manif::SE2<S> Z=B.template cast<S>(); hx::eqm(R,"cast",Z.transform(),B.transform());
}
ENTRY(c13_so3_quat){
  Mat<S,4,1> q=unitq(R,"a",2);
  manif::SO3<S> A(Eigen::Quaternion<S>(q(3),q(0),q(1),q(2)));
  R.eq("x",A.x(),q(0)); R.eq("y",A.y(),q(1)); R.eq("z",A.z(),q(2)); R.eq("w",A.w(),q(3));
  manif::SO3<S> B(q(0),q(1),q(2),q(3)); hx::eqm(R,"B",B.coeffs(),A.coeffs());
  hx::eqm(R,"rotation",A.rotation(),Rq<S>(q)); orthonormal(R,"rot",A.rotation());
  hx::eqm(R,"quat",A.quat().coeffs(),q);
  Mat<S,4,4> T=Mat<S,4,4>::Identity(); T.template topLeftCorner<3,3>()=Rq<S>(q); hx::eqm(R,"transform",A.transform(),T);
  manif::SO3<S> C(A.quat()); hx::eqm(R,"feed_back",C.coeffs(),A.coeffs());
  manif::SO3<S> Z=A.template cast<S>(); hx::eqm(R,"cast",Z.rotation(),A.rotation());
}
ENTRY(c13_so3_angleaxis){
  S th=R.var("th",0.9); Mat<S,4,1> n4=unitq(R,"n",3); // reuse a unit 4-vector's first three components scaled: axis must be unit: use (x,y,z)/|.| not polynomial; take axis with x^2+y^2+z^2=1 via the 'unit3' hypothesis
  (void)n4;
}
ENTRY(c13_so3_rpy){
  S r=R.var("roll",0.3),p=R.var("pitch",-1.1),y=R.var("yaw",2.3);
  manif::SO3<S> A(r,p,y);
  hx::eqm(R,"rotation",A.rotation(),(Rz<S>(y)*Ry<S>(p)*Rx<S>(r)).eval()); orthonormal(R,"rot",A.rotation());
  R.eq("unit",A.coeffs().squaredNorm(),S(1.0));
}
ENTRY(c13_so3_rpy_gimbal){
  S r=R.var("roll",0.3),y=R.var("yaw",2.3); S p(1.5707963267948966);   // pitch = closest double to pi/2
  manif::SO3<S> A(r,p,y);
  hx::eqm(R,"rotation",A.rotation(),(Rz<S>(y)*Ry<S>(p)*Rx<S>(r)).eval());
}
ENTRY(c13_se3){
  Mat<S,3,1> t=vec3(R,"t",WV[0]); Mat<S,4,1> q=unitq(R,"a",2);
  Eigen::Quaternion<S> Q(q(3),q(0),q(1),q(2));
  manif::SE3<S> A(t,Q);
  hx::eqm(R,"translation",A.translation(),t); hx::eqm(R,"quat",A.quat().coeffs(),q); R.eq("x",A.x(),t(0)); R.eq("y",A.y(),t(1)); R.eq("z",A.z(),t(2));
  hx::eqm(R,"rotation",A.rotation(),Rq<S>(q)); orthonormal(R,"rot",A.rotation());
  Mat<S,4,4> T=Mat<S,4,4>::Identity(); T.template topLeftCorner<3,3>()=Rq<S>(q); T.template topRightCorner<3,1>()=t; hx::eqm(R,"transform",A.transform(),T); hx::eqm(R,"isometry",A.isometry().matrix(),T);
  manif::SE3<S> B(t,manif::SO3<S>(q)); hx::eqm(R,"from_SO3",B.coeffs(),A.coeffs());
  manif::SE3<S> Z=A.template cast<S>(); hx::eqm(R,"cast",Z.transform(),A.transform());
  manif::SE3<S> F(A.translation(),A.quat()); hx::eqm(R,"feed_back",F.coeffs(),A.coeffs());
}
ENTRY(c13_se3_rpy){
  S x=R.var("x",1.0),y_=R.var("y",2.0),z=R.var("z",3.0),r=R.var("roll",0.3),p=R.var("pitch",-1.1),y=R.var("yaw",2.3);
  manif::SE3<S> A(x,y_,z,r,p,y); Mat<S,3,1> t; t<<x,y_,z;
  hx::eqm(R,"rotation",A.rotation(),(Rz<S>(y)*Ry<S>(p)*Rx<S>(r)).eval()); hx::eqm(R,"translation",A.translation(),t);
}
// Eigen isometry -> element: the rotation matrix of a symbolic unit quaternion is fed in; Eigen's matrix->quaternion conversion has four branches
ENTRY(c13_se3_isometry){
  Mat<S,3,1> t=vec3(R,"t",WV[0]); Mat<S,4,1> q=unitq(R,"a",0);
  Eigen::Transform<S,3,Eigen::Isometry> h; h.matrix()=Mat<S,4,4>::Identity(); h.matrix().template topLeftCorner<3,3>()=Rq<S>(q); h.matrix().template topRightCorner<3,1>()=t;
  manif::SE3<S> A(h);
  hx::eqm(R,"transform",A.transform(),h.matrix()); R.eq("unit",A.coeffs().template tail<4>().squaredNorm(),S(1.0));
}
ENTRY(c13_se23){
  Mat<S,3,1> t=vec3(R,"t",WV[0]), v=vec3(R,"v",WV[1]); Mat<S,4,1> q=unitq(R,"a",2);
  manif::SE_2_3<S> A(t,Eigen::Quaternion<S>(q(3),q(0),q(1),q(2)),v);
  hx::eqm(R,"translation",A.translation(),t); hx::eqm(R,"velocity",A.linearVelocity(),v); hx::eqm(R,"quat",A.quat().coeffs(),q); hx::eqm(R,"rotation",A.rotation(),Rq<S>(q));
  R.eq("vx",A.vx(),v(0)); R.eq("vy",A.vy(),v(1)); R.eq("vz",A.vz(),v(2)); R.eq("x",A.x(),t(0)); R.eq("y",A.y(),t(1)); R.eq("z",A.z(),t(2));
  hx::eqm(R,"transform",A.transform(),SE23t::template M<S>(A));
  manif::SE_2_3<S> B(t,manif::SO3<S>(q),v); hx::eqm(R,"from_SO3",B.coeffs(),A.coeffs());
  manif::SE_2_3<S> Z=A.template cast<S>(); hx::eqm(R,"cast",Z.transform(),A.transform());
}
ENTRY(c13_sgal3){
  Mat<S,3,1> t=vec3(R,"t",WV[0]), v=vec3(R,"v",WV[1]); Mat<S,4,1> q=unitq(R,"a",2); S tt=R.var("time",0.75);
  manif::SGal3<S> A(t,Eigen::Quaternion<S>(q(3),q(0),q(1),q(2)),v,tt);
  hx::eqm(R,"translation",A.translation(),t); hx::eqm(R,"velocity",A.linearVelocity(),v); hx::eqm(R,"quat",A.quat().coeffs(),q); hx::eqm(R,"rotation",A.rotation(),Rq<S>(q)); R.eq("t",A.t(),tt);
  hx::eqm(R,"transform",A.transform(),SGal3t::template M<S>(A));
  manif::SGal3<S> B(t,manif::SO3<S>(q),v,tt); hx::eqm(R,"from_SO3",B.coeffs(),A.coeffs());
  manif::SGal3<S> Z=A.template cast<S>(); hx::eqm(R,"cast",Z.transform(),A.transform());
}
// normalize(): any non-degenerate data becomes acceptable (|q'|^2 = 1 exactly)
ENTRY(c13_normalize){
  Mat<S,4,1> q; q<<R.var("qx",0.3),R.var("qy",-0.8),R.var("qz",1.7),R.var("qw",0.4); R.assume(S(0.0),0,q.squaredNorm());
  manif::SO3<S> A; A.coeffs()=q; A.normalize(); R.eq("so3",A.coeffs().squaredNorm(),S(1.0));
  Mat<S,2,1> c; c<<R.var("re",1.3),R.var("im",-0.2); R.assume(S(0.0),0,c.squaredNorm());
  manif::SO2<S> B; B.coeffs()=c; B.normalize(); R.eq("so2",B.coeffs().squaredNorm(),S(1.0));
}
// normalize() of the composite groups: the rotation block becomes exactly unit for ANY non-zero data (no magnitude bound), its
// direction is kept, and the linear blocks are untouched
ENTRY(c13_normalize_composite){
  Mat<S,4,1> q; q<<R.var("qx",0.3),R.var("qy",-0.8),R.var("qz",1.7),R.var("qw",0.4); R.assume(S(0.0),0,q.squaredNorm());
  Mat<S,2,1> c; c<<R.var("re",1.3),R.var("im",-0.2); R.assume(S(0.0),0,c.squaredNorm());
  Mat<S,3,1> t=vec3(R,"t",WV[0]), v=vec3(R,"v",WV[1]); S tt=R.var("time",0.75);
  { manif::SE2<S> A; A.coeffs()<<t(0),t(1),c(0),c(1); A.normalize(); R.eq("se2",A.coeffs().template tail<2>().squaredNorm(),S(1.0)); R.eq("se2.dir",A.coeffs()(2)*c(1),A.coeffs()(3)*c(0)); R.eq("se2.x",A.coeffs()(0),t(0)); R.eq("se2.y",A.coeffs()(1),t(1)); }
  { manif::SE3<S> A; A.coeffs().template head<3>()=t; A.coeffs().template tail<4>()=q; A.normalize(); R.eq("se3",A.coeffs().template tail<4>().squaredNorm(),S(1.0)); for(int i=0;i<3;i++){ R.eq("se3.dir"+std::to_string(i),A.coeffs()(3+i)*q(3),A.coeffs()(6)*q(i)); R.eq("se3.t"+std::to_string(i),A.coeffs()(i),t(i)); } }
  { manif::SE_2_3<S> A; A.coeffs().template head<3>()=t; A.coeffs().template segment<4>(3)=q; A.coeffs().template tail<3>()=v; A.normalize(); R.eq("se23",A.coeffs().template segment<4>(3).squaredNorm(),S(1.0)); for(int i=0;i<3;i++){ R.eq("se23.dir"+std::to_string(i),A.coeffs()(3+i)*q(3),A.coeffs()(6)*q(i)); R.eq("se23.t"+std::to_string(i),A.coeffs()(i),t(i)); R.eq("se23.v"+std::to_string(i),A.coeffs()(7+i),v(i)); } }
  { manif::SGal3<S> A; A.coeffs().template head<3>()=t; A.coeffs().template segment<4>(3)=q; A.coeffs().template segment<3>(7)=v; A.coeffs()(10)=tt; A.normalize(); R.eq("sgal3",A.coeffs().template segment<4>(3).squaredNorm(),S(1.0)); for(int i=0;i<3;i++){ R.eq("sgal3.dir"+std::to_string(i),A.coeffs()(3+i)*q(3),A.coeffs()(6)*q(i)); R.eq("sgal3.t"+std::to_string(i),A.coeffs()(i),t(i)); R.eq("sgal3.v"+std::to_string(i),A.coeffs()(7+i),v(i)); } R.eq("sgal3.time",A.coeffs()(10),tt); }
}
// validation: (DEBUG build) data within the acceptance threshold is never rejected / data outside always is; (NDEBUG) nothing is rejected
#ifndef VALID_MODE
#define VALID_MODE 0   /* 0: inside threshold, 1: outside (norm too large), 2: outside (norm too small) */
#endif
template<class S,class V> void norm_assumption(hx::Rec<S>& R,const V& q){
  S n2=q.squaredNorm(); S e(manif::Constants<S>::eps);
  if (VALID_MODE==0){ R.assume((S(1.0)-e*S(0.5))*(S(1.0)-e*S(0.5)),1,n2); R.assume(n2,1,(S(1.0)+e*S(0.5))*(S(1.0)+e*S(0.5))); R.note("noraise","1"); }
  else if (VALID_MODE==1){ R.assume((S(1.0)+e)*(S(1.0)+e),1,n2);
#ifdef NDEBUG
    R.note("noraise","1");
#else
    R.note("mustraise","1");
#endif
  } else { R.assume(n2,1,(S(1.0)-e)*(S(1.0)-e));
#ifdef NDEBUG
    R.note("noraise","1");
#else
    R.note("mustraise","1");
#endif
  }
}
ENTRY(c13_valid_so2){ S sc=R.var("scale",1.0); R.assume(S(0.0),0,sc); Mat<S,2,1> c; c<<sc*R.rat(3,5),sc*R.rat(4,5); norm_assumption(R,c); manif::SO2<S> X(c(0),c(1)); R.out("re",X.real()); }
ENTRY(c13_valid_se2){ S sc=R.var("scale",1.0); R.assume(S(0.0),0,sc); Mat<S,2,1> c; c<<sc*R.rat(-5,13),sc*R.rat(12,13); norm_assumption(R,c); manif::SE2<S> X(R.var("x",1.0),R.var("y",2.0),c(0),c(1)); R.out("re",X.real()); }
ENTRY(c13_valid_so3){ S sc=R.var("scale",1.0); R.assume(S(0.0),0,sc); Mat<S,4,1> q; q<<sc*R.rat(1,5),sc*R.rat(2,5),sc*R.rat(2,5),sc*R.rat(4,5); norm_assumption(R,q); manif::SO3<S> X(q(0),q(1),q(2),q(3)); R.out("w",X.w()); }
ENTRY(c13_valid_se3){ S sc=R.var("scale",1.0); R.assume(S(0.0),0,sc); Mat<S,4,1> q; q<<sc*R.rat(2,9),sc*R.rat(-4,9),sc*R.rat(5,9),sc*R.rat(-6,9); norm_assumption(R,q); Mat<S,7,1> c; c<<R.var("x",1.0),R.var("y",2.0),R.var("z",3.0),q(0),q(1),q(2),q(3); manif::SE3<S> X(c); R.out("w",X.coeffs()(6)); }
HX_MAIN
