// C18: approximate equality is a well-behaved tolerance relation.
// Boolean results are concrete on every path; a claim "result == expected" that fails on some path is a violation
// iff that path is feasible (decided by the solver from the recorded path condition).
#include "groups.h"
using namespace gx;
#ifndef TAG
#define TAG SE3t
#endif
#define COMMON typedef typename Tg::template G<S> G; typedef typename Tg::template T<S> T;
template<class S> S B(bool b){ return S(b?1.0:0.0); }
template<class S,class Tg> void c18_refl(hx::Rec<S>& R){ COMMON
  G X=Tg::make(R,"a",0); S e=R.var("eps",1e-9); R.assume(S(0.0),0,e);
  R.eq("isApprox(X,X,eps)", B<S>(X.isApprox(X,e)), S(1.0));
  R.eq("X==X", B<S>(X==X), S(1.0));
}
template<class S,class Tg> void c18_negq(hx::Rec<S>& R){ COMMON
  G X=Tg::make(R,"a",0); S e=R.var("eps",1e-9); R.assume(S(0.0),0,e);
  typename G::DataType c2=X.coeffs();
  if (Tg::Rep==4 && Tg::DoF==3 && Tg::H==4) { for(int i=0;i<4;i++) c2(i)=-c2(i); } else if (Tg::Rep>=7) { for(int i=3;i<7;i++) c2(i)=-c2(i); }
  G Y(c2);
  R.eq("isApprox(X(q),X(-q))", B<S>(X.isApprox(Y,e)), S(1.0)); R.eq("X(q)==X(-q)", B<S>(X==Y), S(1.0));
}
template<class S,class Tg> void c18_sym(hx::Rec<S>& R){ COMMON
  G Y=Tg::makec(R,0), Z=Tg::make(R,"z",0); G X=hcompose<Tg,S>(Y,Z); S e=R.var("eps",1e-3); R.assume(S(0.0),0,e);
  assume_not_half_turn<Tg>(R,Z);
  R.eq("sym", B<S>(X.isApprox(Y,e)), B<S>(Y.isApprox(X,e)));
}
// isApprox(Y, eps) with Y = X (+) d : holds when every |d_i| <= eps/2, fails when some |d_i| >= 2 eps  (|d| inside the injectivity radius)
#ifndef FARIDX
#define FARIDX 0
#endif
template<class S,class Tg> void c18_near(hx::Rec<S>& R){ COMMON
  G X=Tg::makec(R,0); T d=Tg::maket(R,"d",3); S e=R.var("eps",1e-3); R.assume(S(0.0),0,e); R.assume(e,1,S(0.01));
  for(int i=0;i<Tg::DoF;i++){ R.assume(d.coeffs()(i),1,e*S(0.5)); R.assume(-(e*S(0.5)),1,d.coeffs()(i)); }
  G Y=X.rplus(d);
  R.eq("near", B<S>(X.isApprox(Y,e)), S(1.0)); R.eq("near.sym", B<S>(Y.isApprox(X,e)), S(1.0));
}
template<class S,class Tg> void c18_far(hx::Rec<S>& R){ COMMON
  G X=Tg::makec(R,0); T d=Tg::maket(R,"d",3); S e=R.var("eps",1e-3); R.assume(S(0.0),0,e); R.assume(e,1,S(0.01));
  for(int i=0;i<Tg::DoF;i++){ R.assume(d.coeffs()(i),1,S(0.5)); R.assume(S(-0.5),1,d.coeffs()(i)); }
  R.assume(e*S(2.0),1,d.coeffs()(FARIDX%Tg::DoF));
  G Y=X.rplus(d);
  R.eq("far", B<S>(X.isApprox(Y,e)), S(0.0)); R.eq("far.sym", B<S>(Y.isApprox(X,e)), S(0.0));
}
// the same 'far' claim for elements with large coordinates (1e3 .. 1e9): a relative test on the coefficient vector would accept them
template<class S,class Tg> void c18_far_large(hx::Rec<S>& R){ COMMON
  G X=Tg::make(R,"a",0); T d=Tg::maket(R,"d",3); S e=R.var("eps",1e-3); R.assume(S(0.0),0,e); R.assume(e,1,S(0.01));
  R.assume(S(1000.0),1,X.coeffs()(0)); R.assume(X.coeffs()(0),1,S(1e9));
  for(int i=0;i<Tg::DoF;i++){ R.assume(d.coeffs()(i),1,S(0.5)); R.assume(S(-0.5),1,d.coeffs()(i)); }
  R.assume(e*S(2.0),1,d.coeffs()(FARIDX%Tg::DoF));
  G Y=X.rplus(d);
  R.eq("far", B<S>(X.isApprox(Y,e)), S(0.0));
}
template<class S,class Tg> void c18_tangent(hx::Rec<S>& R){ COMMON
  using std::abs;
  T a=Tg::maket(R,"a",0), b=Tg::maket(R,"b",1); S e=R.var("eps",1e-3); R.assume(S(0.0),0,e);
  R.eq("refl", B<S>(a.isApprox(a,e)), S(1.0));
  R.eq("sym", B<S>(a.isApprox(b,e)), B<S>(b.isApprox(a,e)));
  // absolute test against zero
  bool allsmall=true; for(int i=0;i<Tg::DoF;i++) if(!(abs(a.coeffs()(i))<=e)) allsmall=false;
  R.eq("vs_zero", B<S>(a.isApprox(T::Zero(),e)), B<S>(allsmall));
}
template<class S,class Tg> void c18_tangent_rel(hx::Rec<S>& R){ COMMON
  T a=Tg::maket(R,"a",0), b=Tg::maket(R,"b",1); S e=R.var("eps",1e-3); R.assume(S(0.0),0,e);
  S na=a.coeffs().squaredNorm(), nb=b.coeffs().squaredNorm();
  R.assume(e*e,1,na); R.assume(e*e,1,nb);                      // both norms >= eps: the relative branch
  S mn = (nb<na)? nb : na;
  bool expect = ((a.coeffs()-b.coeffs()).squaredNorm() <= e*e*mn);
  R.eq("relative", B<S>(a.isApprox(b,e)), B<S>(expect));
}
ENTRY_T(c18_refl, TAG)
ENTRY_T(c18_negq, TAG)
ENTRY_T(c18_sym, TAG)
ENTRY_T(c18_near, TAG)
ENTRY_T(c18_far, TAG)
ENTRY_T(c18_far_large, TAG)
ENTRY_T(c18_tangent, TAG)
ENTRY_T(c18_tangent_rel, TAG)
HX_MAIN
