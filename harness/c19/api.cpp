// C19: one documented API entry per ENTRY number, instantiated for GROUP x SCALAR x STORAGE.
// -DGROUP=SE3 -DTANGENT=SE3Tangent -DSCALAR=double -DSTORAGE=0|1|2 (owning, Map, Map<const>) -DENTRY=k (0 = all)
#include "manif/manif.h"
#include "manif/functions.h"
#include "manif/algorithms/interpolation.h"
#include "manif/algorithms/average.h"
#include "manif/algorithms/decasteljau.h"
#include <vector>
using namespace manif;
#ifdef BUNDLE
typedef Bundle<SCALAR, BUNDLE> G; typedef BundleTangent<SCALAR, BUNDLE> T;
#elif defined(RN)
typedef Rn<SCALAR, RN> G; typedef RnTangent<SCALAR, RN> T;
#else
typedef GROUP<SCALAR> G; typedef TANGENT<SCALAR> T;
#endif
typedef G::Jacobian Jac;
#if STORAGE==0
typedef G GX; typedef T TX;
#elif STORAGE==1
typedef Eigen::Map<G> GX; typedef Eigen::Map<T> TX;
#else
typedef Eigen::Map<const G> GX; typedef Eigen::Map<const T> TX;
#endif
#ifndef ENTRY
#define ENTRY 0
#endif
#define E(k) (ENTRY==0 || ENTRY==k)
int main(){
  G g1=G::Random(), g2=G::Random(); T t1=T::Random(), t2=T::Random();
  G::DataType b1=g1.coeffs(), b2=g2.coeffs(); T::DataType c1=t1.coeffs(), c2=t2.coeffs();
#if STORAGE==0
  GX& X=g1; GX& Y=g2; TX& t=t1; TX& u=t2;
#else
  GX X(b1.data()), Y(b2.data()); TX t(c1.data()), u(c2.data());
#endif
  Jac J1,J2; G::Vector p=G::Vector::Random(); G r; T rt; (void)r; (void)rt;
#if E(1)
  r=X.inverse(J1);
#endif
#if E(2)
  rt=X.log(J1); rt=X.lift(J1);
#endif
#if E(3)
  r=X.compose(Y,J1,J2); r=X*Y;
#endif
#if E(4)
  { auto v=X.act(p); (void)v; }
#endif
#if E(5)
  J1=X.adj();
#endif
#if E(6)
  r=X.rplus(t,J1,J2); r=X.plus(t,J1,J2); r=X+t;
#endif
#if E(7)
  r=X.lplus(t,J1,J2); r=t+X; r=t.plus(X); r=t.lplus(X); r=t.rplus(X);
#endif
#if E(8)
  rt=X.rminus(Y,J1,J2); rt=X.minus(Y,J1,J2); rt=X-Y;
#endif
#if E(9)
  rt=X.lminus(Y,J1,J2);
#endif
#if E(10)
  r=X.between(Y,J1,J2);
#endif
#if E(11)
  { bool b=X.isApprox(Y, SCALAR(1e-3)); b=(X==Y); (void)b; }
#endif
#if E(12)
  { auto M=X.transform(); (void)M; }
#endif
#if E(13)
  { auto f=X.template cast<float>(); auto d=X.template cast<double>(); (void)f; (void)d; }
#endif
#if E(14)
  r=t.exp(J1); r=t.retract(J1);
#endif
#if E(15)
  { auto h=t.hat(); (void)h; J1=t.rjac(); J1=t.ljac(); J1=t.rjacinv(); J1=t.ljacinv(); J1=t.smallAdj(); }
#endif
#if E(16)
  { auto Gm=T::Generator(0); auto W=T::InnerWeights(); SCALAR s=t.inner(u); s=t.weightedNorm(); s=t.squaredWeightedNorm(); rt=T::Vee(t.hat()); (void)Gm;(void)W;(void)s; }
#endif
#if E(30)
  { rt=T::Bracket(t1,t2); rt=t.bracket(u); }
#endif
#if E(17)
  { rt=t+u; rt=t-u; rt=-t; rt=t*SCALAR(2); rt=SCALAR(2)*t; rt=t/SCALAR(2); rt=t.plus(u,J1,J2); rt=t.minus(u,J1,J2); bool b=t.isApprox(u,SCALAR(1e-3)); b=(t==u); (void)b; }
#endif
#if E(18)
  r=interpolate(X,Y,SCALAR(0.5)); r=interpolate(X,Y,SCALAR(0.5),INTERP_METHOD::CUBIC); r=interpolate(X,Y,SCALAR(0.5),INTERP_METHOD::CNSMOOTH); { SCALAR ph=smoothing_phi(SCALAR(0.5),3); (void)ph; }
#endif
#if E(19)
  { std::vector<G> v{g1,g2}; r=average_biinvariant(v); }
#endif
#if E(20)
  { std::vector<G> v{g1,g2}; r=average(v); }
#endif
#if E(21)
  { std::vector<G> v{g1,g2}; r=average_frechet_left(v); r=average_frechet_right(v); }
#endif
#if E(22)
  { std::vector<G> v{g1,g2,g1}; auto c=decasteljau(v,2,2,false); (void)c; }
#endif
#if E(23)
  r=manif::inverse(X,J1); rt=manif::log(X,J1); rt=manif::lift(X,J1); r=manif::exp(t,J1); r=manif::retract(t,J1);
#endif
#if E(24)
  r=manif::compose(X,Y,J1,J2); r=manif::between(X,Y,J1,J2);
#endif
#if E(25)
  r=manif::rplus(X,t,J1,J2); r=manif::lplus(X,t,J1,J2); r=manif::plus(X,t,J1,J2);
#endif
#if E(26)
  rt=manif::rminus(X,Y,J1,J2); rt=manif::lminus(X,Y,J1,J2); rt=manif::minus(X,Y,J1,J2);
#endif
#if E(27)
  { auto v=manif::act(X,p); (void)v; }
#endif
#if E(28) && STORAGE!=2
  { G w1=g1; T w2=t1; G::DataType bb=g1.coeffs(); T::DataType cc=t1.coeffs();
  #if STORAGE==0
    G& W=w1; T& V=w2;
  #else
    Eigen::Map<G> W(bb.data()); Eigen::Map<T> V(cc.data());
  #endif
    W.setIdentity(); W.setRandom(); W=g2; W+=t1; W*=g2; V.setZero(); V.setRandom(); V=t2; V+=t2; V-=t2; V*=SCALAR(2); manif::identity(W); manif::random(W); manif::zero(V); manif::random(V); }
#endif
#if E(29)
  { r=G::Identity(); r=G::Random(); rt=T::Zero(); rt=T::Random(); const GX& Xc=X; auto& cf=manif::coeffs(Xc); auto* dp=manif::data(Xc); (void)cf; (void)dp; }
#endif
  return 0;
}
