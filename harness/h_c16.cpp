// C16: averages are valid, stationary and equivariant (decided parts; see DESIGN for what is outside the claim).
#include "groups.h"
#include "manif/algorithms/average.h"
#include <vector>
using namespace gx;
#ifndef TAG
#define TAG SO3t
#endif
#define COMMON typedef typename Tg::template G<S> G; typedef typename Tg::template T<S> T; typedef Mat<S,Tg::H> MH;
#define ROUTINES(X) X(average_biinvariant,0) X(average,1) X(average_frechet_left,2) X(average_frechet_right,3)
#define EMPTY(FN,K) template<class S,class Tg> void c16_empty_##K(hx::Rec<S>& R){ COMMON R.note("mustraise","1"); std::vector<G> v; G r=manif::FN(v); R.out("r",r.coeffs()(0)); }
ROUTINES(EMPTY)
#define SINGLE(FN,K) template<class S,class Tg> void c16_single_##K(hx::Rec<S>& R){ COMMON R.note("noraise","1"); G X=Tg::make(R,"a",0); std::vector<G> v{X}; G r=manif::FN(v); hx::eqm(R,"single",r.coeffs(),X.coeffs()); }
ROUTINES(SINGLE)
// N identical points: the first residual is exactly zero, the loop stops at its first test and returns the point
#define IDENT(FN,K) template<class S,class Tg> void c16_identical_##K(hx::Rec<S>& R){ COMMON R.note("noraise","1"); G X=Tg::make(R,"a",0); std::vector<G> v{X,X,X}; G r=manif::FN(v, S(manif::Constants<S>::eps), 3); hx::eqm(R,"identical",Tg::template M<S>(r),Tg::template M<S>(X)); }
ROUTINES(IDENT)
// per-point lemmas behind left equivariance (one-step induction: translated inputs give translated iterates with identical decisions)
template<class S,class Tg> void c16_left_lemma(hx::Rec<S>& R){ COMMON
  G g=Tg::make(R,"g",2), m=Tg::makec(R,0), Z=Tg::make(R,"z",1); G X=hcompose<Tg,S>(m,Z); T tau=Tg::maket(R,"tau",1);
  assume_not_half_turn<Tg>(R,Z);
  G gm=hcompose<Tg,S>(g,m), gX=hcompose<Tg,S>(g,X);
  hx::eqm(R,"(gX)-(gm)=X-m", gX.rminus(gm).coeffs(), X.rminus(m).coeffs());
  hx::eqm(R,"(gm)+tau=g(m+tau)", Tg::template M<S>(gm.rplus(tau)), (Tg::template M<S>(g)*Tg::template M<S>(m.rplus(tau))).eval());
  hx::eqm(R,"between", gm.between(gX).coeffs(), m.between(X).coeffs());
}
// two points on a commutative group: every routine returns the midpoint (one exact step, then the residual is zero)
#define TWO(FN,K) template<class S,class Tg> void c16_two_##K(hx::Rec<S>& R){ COMMON R.note("noraise","1"); G X=Tg::make(R,"a",0), Y=Tg::make(R,"b",1); std::vector<G> v{X,Y}; G r=manif::FN(v, S(manif::Constants<S>::eps), 6); \
  T half(typename T::DataType(Y.rminus(X).coeffs()*S(0.5))); G mid=X.rplus(half); R.le("midpoint_within_stopping_tolerance", (r.coeffs()-mid.coeffs()).squaredNorm(), S(manif::Constants<S>::eps)); }
ROUTINES(TWO)
#define REGK(FN) ENTRY_T(FN##0, TAG) ENTRY_T(FN##1, TAG) ENTRY_T(FN##2, TAG) ENTRY_T(FN##3, TAG)
REGK(c16_empty_) REGK(c16_single_) REGK(c16_identical_)
#ifdef COMMUTATIVE
REGK(c16_two_)
#endif
ENTRY_T(c16_left_lemma, TAG)
HX_MAIN
