// C15: interpolation hits its end points; SLERP follows the geodesic; smoothing polynomial.
#include "groups.h"
#include "manif/algorithms/interpolation.h"
using namespace gx;
#ifndef TAG
#define TAG SO3t
#endif
#define COMMON typedef typename Tg::template G<S> G; typedef typename Tg::template T<S> T; typedef Mat<S,Tg::H> MH;
// phi_m'(t) = c_m t^m (1-t)^m with c_m = (2m+1)!/(m!)^2, phi(0)=0, phi(1)=1  (the documented smoothing polynomial), monotone on [0,1]
#define PHI(M_, C_) ENTRY(c15_phi##M_){ typedef sym::Jet<S,1> J; S t=R.var("t",0.37); \
    J tj(t); tj.v[0]=S(1.0); J ph=manif::smoothing_phi(tj,(std::size_t)M_); S w(1.0); for(int i=0;i<M_;i++) w=w*t*(S(1.0)-t); \
    R.eq("dphi", ph.v[0], S((double)C_)*w); R.eq("phi0", manif::smoothing_phi(S(0.0),(std::size_t)M_), S(0.0)); R.eq("phi1", manif::smoothing_phi(S(1.0),(std::size_t)M_), S(1.0)); \
    R.eq("primal", ph.a, manif::smoothing_phi(t,(std::size_t)M_)); }
PHI(1,6) PHI(2,30) PHI(3,140) PHI(4,630)
#define PHIMONO(M_) ENTRY(c15_phi_monotone##M_){ typedef sym::Jet<S,1> J; S t=R.var("t",0.37); R.assume(S(0.0),1,t); R.assume(t,1,S(1.0)); J tj(t); tj.v[0]=S(1.0); J ph=manif::smoothing_phi(tj,(std::size_t)M_); R.le("monotone",S(0.0),ph.v[0]); R.le("range_lo",S(0.0),ph.a); R.le("range_hi",ph.a,S(1.0)); }
PHIMONO(1) PHIMONO(2) PHIMONO(3) PHIMONO(4)
#define PHIBAD(D_) ENTRY(c15_phi_unsupported##D_){ R.note("mustraise","1"); S t=R.var("t",0.37); S v=manif::smoothing_phi(t,(std::size_t)D_); R.out("v",v); }
PHIBAD(0) PHIBAD(5) PHIBAD(6) PHIBAD(17)
#ifndef METHOD
#define METHOD SLERP
#endif
template<class S,class Tg> void c15_endpoints(hx::Rec<S>& R){ COMMON
  G A=Tg::make(R,"a",0), Z=Tg::make(R,"z",1); G Bm=hcompose<Tg,S>(A,Z);
  assume_not_half_turn<Tg>(R,Z);
  T ta=Tg::maket(R,"ta",2), tb=Tg::maket(R,"tb",3);
  G m0=manif::interpolate(A,Bm,S(0.0),manif::INTERP_METHOD::METHOD,ta,tb), m1=manif::interpolate(A,Bm,S(1.0),manif::INTERP_METHOD::METHOD,ta,tb);
  hx::eqm(R,"t=0", Tg::template M<S>(m0), Tg::template M<S>(A));
  hx::eqm(R,"t=1", Tg::template M<S>(m1), Tg::template M<S>(Bm));
}
template<class S,class Tg> void c15_range_hi(hx::Rec<S>& R){ COMMON R.note("mustraise","1");
  G A=Tg::makec(R,0), Bm=Tg::makec(R,1); S t=R.var("t",1.5); R.assume(S(1.0),0,t);
  G m=manif::interpolate(A,Bm,t,manif::INTERP_METHOD::METHOD); R.out("m",m.coeffs()(0));
}
template<class S,class Tg> void c15_range_lo(hx::Rec<S>& R){ COMMON R.note("mustraise","1");
  G A=Tg::makec(R,0), Bm=Tg::makec(R,1); S t=R.var("t",-0.5); R.assume(t,0,S(0.0));
  G m=manif::interpolate(A,Bm,t,manif::INTERP_METHOD::METHOD); R.out("m",m.coeffs()(0));
}
template<class S,class Tg> void c15_range_ok(hx::Rec<S>& R){ COMMON R.note("noraise","1");
  G A=Tg::makec(R,0), Bm=Tg::makec(R,1); S t=R.var("t",0.5); R.assume(S(0.0),1,t); R.assume(t,1,S(1.0));
  G m=manif::interpolate(A,Bm,t,manif::INTERP_METHOD::METHOD); R.out("m",m.coeffs()(0));
}
// SLERP: m(t) = A * exp(t * log(A^-1 B))
template<class S,class Tg> void c15_slerp_law(hx::Rec<S>& R){ COMMON
  G A=Tg::make(R,"a",0), Z=Tg::make(R,"z",1); G Bm=hcompose<Tg,S>(A,Z); S t=R.var("t",0.3); R.assume(S(0.0),1,t); R.assume(t,1,S(1.0));
  assume_not_half_turn<Tg>(R,Z);
  G m=manif::interpolate(A,Bm,t);
  T tau=Z.log(); T st(typename T::DataType(tau.coeffs()*t));
  hx::eqm(R,"law", Tg::template M<S>(m), (Tg::template M<S>(A)*Tg::template M<S>(st.exp())).eval());
}
// left equivariance: interp(gA, gB, t) = g interp(A, B, t)
template<class S,class Tg> void c15_equivariance(hx::Rec<S>& R){ COMMON
  G g=Tg::make(R,"g",2), A=Tg::makec(R,0), Z=Tg::make(R,"z",1); G Bm=hcompose<Tg,S>(A,Z); S t=R.var("t",0.3); R.assume(S(0.0),1,t); R.assume(t,1,S(1.0));
  assume_not_half_turn<Tg>(R,Z);
  G gA=hcompose<Tg,S>(g,A), gB=hcompose<Tg,S>(g,Bm);
  G m=manif::interpolate(A,Bm,t), mg=manif::interpolate(gA,gB,t);
  hx::eqm(R,"equiv", Tg::template M<S>(mg), (Tg::template M<S>(g)*Tg::template M<S>(m)).eval());
}
#define ENTRY_M(fn, tag) static hx::Reg HX_CAT(HX_CAT(reg_,fn),HX_CAT(_,__LINE__))(std::string(#fn "_" HX_STR(METHOD) ".")+tag::nm(), [](hx::Rec<HS>& r){ fn<HS,tag>(r); });
ENTRY_M(c15_endpoints, TAG)
ENTRY_M(c15_range_hi, TAG)
ENTRY_M(c15_range_lo, TAG)
ENTRY_M(c15_range_ok, TAG)
ENTRY_T(c15_slerp_law, TAG)
ENTRY_T(c15_equivariance, TAG)
HX_MAIN
