// C03: log is the principal inverse of exp.
#include "groups.h"
using namespace gx;
#ifndef TAG
#define TAG SE3t
#endif
#define COMMON typedef typename Tg::template G<S> G; typedef typename Tg::template T<S> T; typedef Mat<S,Tg::H> MH;
template<class S,class Tg> void c03_explog(hx::Rec<S>& R){ COMMON
  G X=Tg::make(R,"a",0);
  assume_not_half_turn<Tg>(R,X);   // rotation by exactly pi: 0/0 in V^-1 and a two-valued logarithm; outside the claim
  T t=X.log();
  hx::eqm(R,"M", Tg::template M<S>(t.exp()), Tg::template M<S>(X));
  R.le("rot<=pi", Tg::template rotsq<S>(t), S(9.86960441));   // 9.8696044011 > pi^2 (rational upper bound)
}
template<class S,class Tg> void c03_negq(hx::Rec<S>& R){ COMMON
  G X=Tg::make(R,"a",0);
  assume_not_half_turn<Tg>(R,X);
  typename G::DataType c=X.coeffs();
  // the other coefficient vector of the same transformation: rotation coefficients negated
  typename G::DataType c2=c;
  if (Tg::Rep==4 && Tg::DoF==3 && Tg::H==4) { for(int i=0;i<4;i++) c2(i)=-c(i); }          // SO3
  else if (Tg::Rep>=7) { for(int i=3;i<7;i++) c2(i)=-c(i); }                                // SE3, SE_2_3, SGal3
  G Y(c2);
  hx::eqm(R,"log", Y.log().coeffs(), X.log().coeffs());
  hx::eqm(R,"M", Tg::template M<S>(Y), Tg::template M<S>(X));
}
template<class S,class Tg> void c03_logexp(hx::Rec<S>& R){ COMMON
  T t=MAKET(Tg,R,"t",0);
  assume_rot_below_pi<Tg>(R,t);
  hx::eqm(R,"t", t.exp().log().coeffs(), t.coeffs());
}
ENTRY_T(c03_explog, TAG)
ENTRY_T(c03_negq, TAG)
ENTRY_T(c03_logexp, TAG)
HX_MAIN
