// C07: Lie-algebra structure: generators, hat, vee, bracket, inner product.
#include "groups.h"
using namespace gx;
#ifndef TAG
#define TAG SE3t
#endif
// documented basis: E_i = hat_ref(e_i) (hat_ref is written out in groups.h from the group definitions)
template<class S,class Tg> Mat<S,Tg::A> basis(int i){
  typedef typename Tg::template T<S> T; typename T::DataType c=T::DataType::Zero(); c(i)=S(1.0); T e(c);
  return Tg::template alg<S>(e);
}
template<class S,class Tg> void c07_generators(hx::Rec<S>& R){
  typedef typename Tg::template T<S> T;
  for(int i=0;i<Tg::DoF;i++) hx::eqm(R,"G"+std::to_string(i), T::Generator(i), basis<S,Tg>(i));
  auto t=Tg::maket(R,"t",0);
  for(int i=0;i<Tg::DoF;i++) hx::eqm(R,"g"+std::to_string(i), t.generator(i), basis<S,Tg>(i));
}
template<class S,class Tg> void c07_hat(hx::Rec<S>& R){
  typedef typename Tg::template T<S> T; typedef Mat<S,Tg::A> MH;
  auto t=Tg::maket(R,"t",0);
  hx::eqm(R,"hat", t.hat(), Tg::template alg<S>(t));
  MH sum=MH::Zero(); for(int i=0;i<Tg::DoF;i++) sum+=t.coeffs()(i)*T::Generator(i);
  hx::eqm(R,"hatsum", t.hat(), sum);
  hx::eqm(R,"vee", T::Vee(t.hat()).coeffs(), t.coeffs());
  T u; u.setVee(Tg::template alg<S>(t)); hx::eqm(R,"setVee", u.coeffs(), t.coeffs());
}
template<class S,class Tg> void c07_bracket(hx::Rec<S>& R){
  typedef typename Tg::template T<S> T; typedef Mat<S,Tg::A> MH;
  auto a=Tg::maket(R,"a",0); auto b=Tg::maket(R,"b",1); auto c=Tg::maket(R,"c",2);
  MH A=Tg::template alg<S>(a), B=Tg::template alg<S>(b);
  T ab=T::Bracket(a,b);
  hx::eqm(R,"br", Tg::template alg<S>(ab), (A*B-B*A).eval());
  hx::eqm(R,"br_member", a.bracket(b).coeffs(), ab.coeffs());
  hx::eqm(R,"antisym", T::Bracket(b,a).coeffs(), (-ab.coeffs()).eval());
  // Jacobi identity on the library's bracket
  typename T::DataType J = T::Bracket(a,T::Bracket(b,c)).coeffs()+T::Bracket(b,T::Bracket(c,a)).coeffs()+T::Bracket(c,T::Bracket(a,b)).coeffs();
  hx::eqm(R,"jacobi", J, typename T::DataType(T::DataType::Zero()));
  // bilinearity in the first argument
  S k=R.var("k",1.75);
  T ka(typename T::DataType(a.coeffs()*k+c.coeffs()));
  hx::eqm(R,"bilinear", T::Bracket(ka,b).coeffs(), (k*ab.coeffs()+T::Bracket(c,b).coeffs()).eval());
}
template<class S,class Tg> void c07_inner(hx::Rec<S>& R){
  typedef typename Tg::template T<S> T; typedef Mat<S,Tg::A> MH;
  auto a=Tg::maket(R,"a",0); auto b=Tg::maket(R,"b",1);
  MH A=Tg::template alg<S>(a), B=Tg::template alg<S>(b);
  S frob=(A.transpose()*B).trace();
  R.eq("inner", a.inner(b), frob);
  auto W=T::InnerWeights();
  R.eq("innerW", a.inner(b), (a.coeffs().transpose()*W*b.coeffs())(0));
  hx::eqm(R,"Wsym", W, W.transpose().eval());
  hx::eqm(R,"Wmember", a.innerWeights(), W);
  R.eq("sqnorm", a.squaredWeightedNorm(), (A.transpose()*A).trace());
  S wn=a.weightedNorm();
  R.eq("norm2", wn*wn, a.squaredWeightedNorm());
  { using std::sqrt; R.eq("norm_def", wn, sqrt(a.squaredWeightedNorm())); }
  R.le("norm_nonneg", S(0.0), wn);
  // positive definiteness: a^T W a >= lambda |a|^2 with lambda = 1 (every generator has Frobenius norm >= 1 and W is diagonal for all provided groups)
  R.le("posdef", a.coeffs().squaredNorm(), a.squaredWeightedNorm());
}
// the inner product of a group does not depend on which other tangent types the process used before: every other tangent
// type of the library (same scalar; in particular the ones with the same number of degrees of freedom) is used first
template<class Own,class Other> struct touch_unless_same { static void run(){ (void)Other::InnerWeights(); } };
template<class Own> struct touch_unless_same<Own,Own> { static void run(){} };
template<class S,class Tg> void c07_inner_history(hx::Rec<S>& R){
  typedef typename Tg::template T<S> T;
  touch_unless_same<T,manif::RnTangent<S,1>>::run(); touch_unless_same<T,manif::RnTangent<S,3>>::run(); touch_unless_same<T,manif::RnTangent<S,5>>::run();
  touch_unless_same<T,manif::RnTangent<S,6>>::run(); touch_unless_same<T,manif::RnTangent<S,9>>::run(); touch_unless_same<T,manif::RnTangent<S,10>>::run();
  touch_unless_same<T,manif::SO2Tangent<S>>::run(); touch_unless_same<T,manif::SE2Tangent<S>>::run(); touch_unless_same<T,manif::SO3Tangent<S>>::run();
  touch_unless_same<T,manif::SE3Tangent<S>>::run(); touch_unless_same<T,manif::SE_2_3Tangent<S>>::run(); touch_unless_same<T,manif::SGal3Tangent<S>>::run();
  c07_inner<S,Tg>(R);
}
#ifdef HISTORY
ENTRY_T(c07_inner_history, TAG)
#else
#define GENIDX(NAME, IDX, NOTE_) template<class S,class Tg> void c07_genidx_##NAME(hx::Rec<S>& R){ typedef typename Tg::template T<S> T; R.note(NOTE_,"1"); auto Gm=T::Generator(IDX); R.out("g00",Gm(0,0)); }
GENIDX(m1, -1, "mustraise") GENIDX(dof, Tg::DoF, "mustraise") GENIDX(dofp1, Tg::DoF+1, "mustraise") GENIDX(intmax, 2147483647, "mustraise") GENIDX(intmin, (-2147483647-1), "mustraise") GENIDX(last, Tg::DoF-1, "noraise") GENIDX(first, 0, "noraise")
ENTRY_T(c07_genidx_m1, TAG) ENTRY_T(c07_genidx_dof, TAG) ENTRY_T(c07_genidx_dofp1, TAG) ENTRY_T(c07_genidx_intmax, TAG) ENTRY_T(c07_genidx_intmin, TAG) ENTRY_T(c07_genidx_last, TAG) ENTRY_T(c07_genidx_first, TAG)
#ifndef ONLY_GENIDX
ENTRY_T(c07_generators, TAG)
ENTRY_T(c07_hat, TAG)
ENTRY_T(c07_bracket, TAG)
ENTRY_T(c07_inner, TAG)
#endif
#endif
HX_MAIN
