// C06: rjac/ljac, inverses, Adj, adj defining identities.
#include "groups.h"
using namespace gx;
#ifndef TAG
#define TAG SE3t
#endif
template<class S,class Tg> void c06_smalladj(hx::Rec<S>& R){
  typedef typename Tg::template T<S> T; typedef Mat<S,Tg::H> MH;
  auto t=Tg::maket(R,"t",0); auto s=Tg::maket(R,"s",1);
  MH A=Tg::template hat<S>(t), B=Tg::template hat<S>(s);
  T u(typename T::DataType(t.smallAdj()*s.coeffs()));
  hx::eqm(R,"comm", Tg::template hat<S>(u), (A*B-B*A).eval());
}
template<class S,class Tg> void c06_adj(hx::Rec<S>& R){
  typedef typename Tg::template T<S> T; typedef Mat<S,Tg::H> MH;
  auto X=Tg::make(R,"a",0); auto s=Tg::maket(R,"s",1);
  MH M=Tg::template M<S>(X);
  T u(typename T::DataType(X.adj()*s.coeffs()));
  // Adj(X) s = vee(M hat(s) M^-1)  <=>  hat(Adj s) M = M hat(s)
  hx::eqm(R,"conj", (Tg::template hat<S>(u)*M).eval(), (M*Tg::template hat<S>(s)).eval());
}
template<class S,class Tg> void c06_adj_compose(hx::Rec<S>& R){
  auto X=Tg::make(R,"a",0); auto Y=Tg::make(R,"b",1);
  hx::eqm(R,"homo", X.compose(Y).adj(), (X.adj()*Y.adj()).eval());
  hx::eqm(R,"inv", (X.inverse().adj()*X.adj()).eval(), typename Tg::template G<S>::Jacobian(Tg::template G<S>::Jacobian::Identity()));
}
// F(s) = s*ljac(s t) satisfies F'(s) = Adj(exp(s t)); at s=1: ljac(t) + d/ds ljac(s t) = Adj(exp t)
template<class S,class Tg> void c06_ljac_ode(hx::Rec<S>& R){
  typedef sym::Jet<S,1> J; typedef typename Tg::template T<J> TJ; typedef typename Tg::template T<S> T;
  T t=MAKET(Tg,R,"t",0);
  typename TJ::DataType tv; for(int i=0;i<Tg::DoF;i++){ J x(t.coeffs()(i)); x.v[0]=t.coeffs()(i); tv(i)=x; }
  TJ tj(tv); auto Jl=tj.ljac();
  auto Adj=t.exp().adj();
  Mat<S,Tg::DoF> F; for(int i=0;i<Tg::DoF;i++)for(int j=0;j<Tg::DoF;j++) F(i,j)=Jl(i,j).a+Jl(i,j).v[0];
  hx::eqm(R,"ode", F, Adj);
  auto Jl0=t.ljac();
  for(int i=0;i<Tg::DoF;i++)for(int j=0;j<Tg::DoF;j++) R.eq("primal("+std::to_string(i)+","+std::to_string(j)+")", Jl(i,j).a, Jl0(i,j));
}
// d/ds Adj(exp(s t)) = smallAdj(t) Adj(exp(s t)) at s=1   (Adj(exp t) = exp(ad_t))
template<class S,class Tg> void c06_adj_ode(hx::Rec<S>& R){
  typedef sym::Jet<S,1> J; typedef typename Tg::template T<J> TJ; typedef typename Tg::template T<S> T;
  T t=MAKET(Tg,R,"t",0);
  typename TJ::DataType tv; for(int i=0;i<Tg::DoF;i++){ J x(t.coeffs()(i)); x.v[0]=t.coeffs()(i); tv(i)=x; }
  TJ tj(tv); auto AJ=tj.exp().adj();
  Mat<S,Tg::DoF> A0,dA; for(int i=0;i<Tg::DoF;i++)for(int j=0;j<Tg::DoF;j++){ A0(i,j)=AJ(i,j).a; dA(i,j)=AJ(i,j).v[0]; }
  hx::eqm(R,"ode", dA, (t.smallAdj()*A0).eval());
}
template<class S,class Tg> void c06_rjac(hx::Rec<S>& R){
  typedef typename Tg::template T<S> T;
  T t=MAKET(Tg,R,"t",0); T mt(typename T::DataType(-t.coeffs()));
  hx::eqm(R,"rjac=ljac(-t)", t.rjac(), mt.ljac());
  hx::eqm(R,"unary-", (-t).coeffs(), mt.coeffs());
}
template<class S,class Tg> void c06_inverses(hx::Rec<S>& R){
  typedef typename Tg::template T<S> T; typedef typename T::Jacobian Jac;
  T t=MAKET(Tg,R,"t",0);
  assume_rot_below_pi<Tg>(R,t);
  hx::eqm(R,"rjacinv*rjac", (t.rjacinv()*t.rjac()).eval(), Jac(Jac::Identity()));
  hx::eqm(R,"ljacinv*ljac", (t.ljacinv()*t.ljac()).eval(), Jac(Jac::Identity()));
}
template<class S,class Tg> void c06_adjexp(hx::Rec<S>& R){
  typedef typename Tg::template T<S> T;
  T t=MAKET(Tg,R,"t",0);
  // Adj(exp t) = ljac * rjacinv   <=>  Adj(exp t) * rjac = ljac
  hx::eqm(R,"adjexp", (t.exp().adj()*t.rjac()).eval(), t.ljac());
}
ENTRY_T(c06_smalladj, TAG)
ENTRY_T(c06_adj, TAG)
ENTRY_T(c06_adj_compose, TAG)
ENTRY_T(c06_ljac_ode, TAG)
ENTRY_T(c06_adj_ode, TAG)
ENTRY_T(c06_rjac, TAG)
ENTRY_T(c06_inverses, TAG)
ENTRY_T(c06_adjexp, TAG)
HX_MAIN
