// C09: optional outputs are transparent; operations are pure and deterministic; aliasing.
#include "groups.h"
using namespace gx;
#ifndef TAG
#define TAG SE3t
#endif
#define COMMON typedef typename Tg::template G<S> G; typedef typename Tg::template T<S> T; typedef typename G::Jacobian Jac; enum{D=Tg::DoF,P=Tg::P}; const tl::nullopt_t N_=tl::nullopt;
// two-Jacobian operations: all four subsets, one entry per operation (keeps the path count per entry small)
#define CO(x) (x).coeffs()
#define DEF2(FN, ARGS, CALL) template<class S,class Tg> void FN(hx::Rec<S>& R){ COMMON ARGS \
    Jac A0,B0,A1,B1; { int pc=0; for(Jac* Jp : {&A0,&B0,&A1,&B1}) for(int i=0;i<Jp->rows();i++)for(int j=0;j<Jp->cols();j++) (*Jp)(i,j)=R.var("jpoison"+std::to_string(pc++), 3000.0+pc); } auto v0=CALL(A0,B0); auto v1=CALL(N_,N_); auto v2=CALL(A1,N_); auto v3=CALL(N_,B1); \
    hx::eqm(R,"val_none",CO(v1),CO(v0)); hx::eqm(R,"val_a",CO(v2),CO(v0)); hx::eqm(R,"val_b",CO(v3),CO(v0)); \
    hx::eqm(R,"Ja_alone",A1,A0); hx::eqm(R,"Jb_alone",B1,B0); \
    hx::eqm(R,"argX",X.coeffs(),x0); hx::eqm(R,"argY",Y.coeffs(),y0); hx::eqm(R,"argt",t.coeffs(),t0); }
#define XYT G X=Tg::make(R,"a",0), Y=Tg::make(R,"b",1); T t=Tg::maket(R,"t",1); typename G::DataType x0=X.coeffs(), y0=Y.coeffs(); typename T::DataType t0=t.coeffs();
#define C_compose(A,B) X.compose(Y,A,B)
#define C_between(A,B) X.between(Y,A,B)
#define C_rplus(A,B) X.rplus(t,A,B)
#define C_lplus(A,B) X.lplus(t,A,B)
#define C_plus(A,B) X.plus(t,A,B)
#define C_rminus(A,B) X.rminus(Y,A,B)
#define C_lminus(A,B) X.lminus(Y,A,B)
#define C_minus(A,B) X.minus(Y,A,B)
DEF2(c09_sub_compose, XYT, C_compose)
DEF2(c09_sub_between, XYT, C_between)
DEF2(c09_sub_rplus, XYT, C_rplus)
DEF2(c09_sub_lplus, XYT, C_lplus)
DEF2(c09_sub_plus, XYT, C_plus)
DEF2(c09_sub_rminus, XYT, C_rminus)
DEF2(c09_sub_lminus, XYT, C_lminus)
DEF2(c09_sub_minus, XYT, C_minus)
template<class S,class Tg> void c09_subsets_unary(hx::Rec<S>& R){ COMMON
  G X=Tg::make(R,"a",0); T t=Tg::maket(R,"t",1); Mat<S,P,1> p=vecn<hx::Rec<S>,P>(R,"p",1);
  Jac J;
  hx::eqm(R,"inverse.val", X.inverse().coeffs(), X.inverse(J).coeffs());
  hx::eqm(R,"log.val", X.log().coeffs(), X.log(J).coeffs());
  hx::eqm(R,"exp.val", t.exp().coeffs(), t.exp(J).coeffs());
}
// act() with every subset of its two optional Jacobians (its own entry: log(J) of the groups with a numerically inverted
// Jacobian makes the paths of the entry above very expensive)
template<class S,class Tg> void c09_subsets_act(hx::Rec<S>& R){ COMMON
  G X=Tg::make(R,"a",0); Mat<S,P,1> p=vecn<hx::Rec<S>,P>(R,"p",1);
  Mat<S,P,D> Jm,Jm1; Mat<S,P,P> Jp,Jp1;
  { int pc=0; for(int i=0;i<P;i++){ for(int j=0;j<D;j++){ Jm(i,j)=R.var("apoison"+std::to_string(pc++),4000.0+pc); Jm1(i,j)=R.var("apoison"+std::to_string(pc++),4000.0+pc); } for(int j=0;j<P;j++){ Jp(i,j)=R.var("apoison"+std::to_string(pc++),4000.0+pc); Jp1(i,j)=R.var("apoison"+std::to_string(pc++),4000.0+pc); } } }   // an unwritten output keeps its poison symbol
  Mat<S,P,1> q0=X.act(p,Jm,Jp);
  hx::eqm(R,"act.val_none", X.act(p), q0); hx::eqm(R,"act.val_a", X.act(p,Jm1), q0); hx::eqm(R,"act.Ja_alone", Jm1, Jm);
  hx::eqm(R,"act.val_b", X.act(p,N_,Jp1), q0); hx::eqm(R,"act.Jb_alone", Jp1, Jp);
}
// an output bound to a block of a larger matrix writes exactly that block (one entry per operation)
#define DEFB(FN, CALL) template<class S,class Tg> void FN(hx::Rec<S>& R){ COMMON XYT \
  Mat<S,D+2,2*D+3> big, ref; for(int i=0;i<big.rows();i++)for(int j=0;j<big.cols();j++){ big(i,j)=R.var("poison"+std::to_string(i)+"_"+std::to_string(j), 1000.0+i*37+j); ref(i,j)=big(i,j); } \
  Jac Ja,Jb; CALL(Ja,Jb); auto ba=big.template block<D,D>(1,1); auto bb=big.template block<D,D>(1,D+2); CALL(ba,bb); \
  Mat<S,D+2,2*D+3> exp_=ref; exp_.template block<D,D>(1,1)=Ja; exp_.template block<D,D>(1,D+2)=Jb; hx::eqm(R,"block",big,exp_); }
#define DEFB1(FN, CALL) template<class S,class Tg> void FN(hx::Rec<S>& R){ COMMON XYT \
  Mat<S,D+2,2*D+3> big, ref; for(int i=0;i<big.rows();i++)for(int j=0;j<big.cols();j++){ big(i,j)=R.var("poison"+std::to_string(i)+"_"+std::to_string(j), 1000.0+i*37+j); ref(i,j)=big(i,j); } \
  Jac Ja; CALL(Ja); auto ba=big.template block<D,D>(1,1); CALL(ba); \
  Mat<S,D+2,2*D+3> exp_=ref; exp_.template block<D,D>(1,1)=Ja; hx::eqm(R,"block",big,exp_); }
DEFB(c09_blk_compose, C_compose)
DEFB(c09_blk_between, C_between)
DEFB(c09_blk_rplus, C_rplus)
DEFB(c09_blk_lplus, C_lplus)
DEFB(c09_blk_rminus, C_rminus)
DEFB(c09_blk_lminus, C_lminus)
#define C_inverse(A) X.inverse(A)
#define C_log(A) X.log(A)
#define C_exp(A) t.exp(A)
DEFB1(c09_blk_inverse, C_inverse)
DEFB1(c09_blk_log, C_log)
DEFB1(c09_blk_exp, C_exp)
// aliasing and history independence
template<class S,class Tg> void c09_alias(hx::Rec<S>& R){ COMMON
  G X=Tg::make(R,"a",0), Y=Tg::make(R,"b",1); T t=Tg::maket(R,"t",1);
  G XX=X.compose(X), Xi=X.inverse(), Xt=X.rplus(t), XY=X.compose(Y);
  { G W=X; W=W*W; hx::eqm(R,"X=X*X",W.coeffs(),XX.coeffs()); }
  { G W=X; W*=W; hx::eqm(R,"X*=X",W.coeffs(),XX.coeffs()); }
  { G W=X; W=W.inverse(); hx::eqm(R,"X=X.inverse()",W.coeffs(),Xi.coeffs()); }
  { G W=X; W=W.compose(Y); hx::eqm(R,"X=X.compose(Y)",W.coeffs(),XY.coeffs()); }
  { G W=Y; W=X.compose(W); hx::eqm(R,"Y=X.compose(Y)",W.coeffs(),XY.coeffs()); }
  { typename G::DataType buf=X.coeffs(); Eigen::Map<G> V(buf.data()); V+=t; hx::eqm(R,"view+=t",buf,Xt.coeffs()); }
  { typename G::DataType buf=X.coeffs(); Eigen::Map<G> V(buf.data()); V=V*V; hx::eqm(R,"view=view*view",buf,XX.coeffs()); }
  { T u=t; u=u+u; hx::eqm(R,"t=t+t",u.coeffs(),(t.coeffs()+t.coeffs()).eval()); }
}
template<class S,class Tg> void c09_history(hx::Rec<S>& R){ COMMON
  G X=Tg::make(R,"a",0), Y=Tg::make(R,"b",1); T t=Tg::maket(R,"t",1);
  // history: the same call after other library activity (statics initialised, other groups' operations) returns the same
  G first=X.compose(Y); T l1=X.rminus(Y);
  (void)G::Identity(); (void)T::Zero(); (void)Y.inverse().adj(); (void)T::Generator(0); (void)T::InnerWeights(); (void)t.rjac(); (void)t.smallAdj(); (void)t.exp();
  G second=X.compose(Y); T l2=X.rminus(Y);
  hx::eqm(R,"history.compose",second.coeffs(),first.coeffs()); hx::eqm(R,"history.rminus",l2.coeffs(),l1.coeffs());
}
ENTRY_T(c09_sub_compose, TAG)
ENTRY_T(c09_sub_between, TAG)
ENTRY_T(c09_sub_rplus, TAG)
ENTRY_T(c09_sub_lplus, TAG)
ENTRY_T(c09_sub_plus, TAG)
ENTRY_T(c09_sub_rminus, TAG)
ENTRY_T(c09_sub_lminus, TAG)
ENTRY_T(c09_sub_minus, TAG)
ENTRY_T(c09_subsets_unary, TAG)
ENTRY_T(c09_subsets_act, TAG)
ENTRY_T(c09_blk_compose, TAG)
ENTRY_T(c09_blk_between, TAG)
ENTRY_T(c09_blk_rplus, TAG)
ENTRY_T(c09_blk_lplus, TAG)
ENTRY_T(c09_blk_rminus, TAG)
ENTRY_T(c09_blk_lminus, TAG)
ENTRY_T(c09_blk_inverse, TAG)
ENTRY_T(c09_blk_log, TAG)
ENTRY_T(c09_blk_exp, TAG)
ENTRY_T(c09_alias, TAG)
ENTRY_T(c09_history, TAG)
HX_MAIN
