// C01: compose / inverse / identity / act realise the matrix group.
#include "groups.h"
using namespace gx;
#ifndef TAG
#define TAG SE3t
#endif
template<class S,class Tg> void c01_compose(hx::Rec<S>& R){
  auto X=Tg::make(R,"a",0); auto Y=Tg::make(R,"b",1);
  auto Z=X.compose(Y);
  hx::eqm(R,"M", Tg::template M<S>(Z), (Tg::template M<S>(X)*Tg::template M<S>(Y)).eval());
  auto Z2=X*Y;
  hx::eqm(R,"opmul", Z2.coeffs(), Z.coeffs());
}
template<class S,class Tg> void c01_inverse(hx::Rec<S>& R){
  auto X=Tg::make(R,"a",2);
  auto Xi=X.inverse();
  typedef Mat<S,Tg::H> MH;
  hx::eqm(R,"MiM", (Tg::template M<S>(Xi)*Tg::template M<S>(X)).eval(), MH(MH::Identity()));
  hx::eqm(R,"MMi", (Tg::template M<S>(X)*Tg::template M<S>(Xi)).eval(), MH(MH::Identity()));
}
template<class S,class Tg> void c01_identity(hx::Rec<S>& R){
  typedef typename Tg::template G<S> G; typedef Mat<S,Tg::H> MH;
  G I=G::Identity();
  hx::eqm(R,"I", Tg::template M<S>(I), MH(MH::Identity()));
  G J; J.setIdentity();
  hx::eqm(R,"setI", Tg::template M<S>(J), MH(MH::Identity()));
}
template<class S,class Tg> void c01_act(hx::Rec<S>& R){
  auto X=Tg::make(R,"a",3);
  Mat<S,Tg::P,1> p=vecn<hx::Rec<S>,Tg::P>(R,"p",1);
  Mat<S,Tg::P,1> q=X.act(p);
  Mat<S,Tg::H,1> hq=(Tg::template M<S>(X)*Tg::template hom<S>(p)).eval();
  for(int i=0;i<Tg::P;i++) R.eq("act("+std::to_string(i)+")", q(i), hq(i));
}
template<class S,class Tg> void c01_transform(hx::Rec<S>& R){
  auto X=Tg::make(R,"a",1);
  hx::eqm(R,"T", X.transform(), Tg::template M<S>(X));
}
ENTRY_T(c01_compose, TAG)
ENTRY_T(c01_inverse, TAG)
ENTRY_T(c01_identity, TAG)
ENTRY_T(c01_act, TAG)
ENTRY_T(c01_transform, TAG)
HX_MAIN
