// C13 / C08: cast<>() ACROSS scalar types. The wide type is the harness scalar S (sym::Real / double), the narrow type is
// HL (sym::Lo: every arithmetic result carries a relative rounding error variable |d| <= 2^-24  /  float).
// Widening cast of any element that is valid in the narrow type must be valid in the wide type (acceptance threshold
// 100*eps(double)) and equal to the original to the precision of the narrow type.
#include "groups.h"
#if HSYM
#include "lo.h"
namespace manif {
template<> struct Constants<sym::Lo> { static const sym::Lo eps; static const sym::Lo eps_sqrt; static const sym::Lo to_rad; static const sym::Lo to_deg; };
const sym::Lo Constants<sym::Lo>::eps = sym::Lo((double)Constants<float>::eps);
const sym::Lo Constants<sym::Lo>::eps_sqrt = sym::Lo((double)Constants<float>::eps_sqrt);
const sym::Lo Constants<sym::Lo>::to_rad = sym::Lo((double)Constants<float>::to_rad);
const sym::Lo Constants<sym::Lo>::to_deg = sym::Lo((double)Constants<float>::to_deg);
namespace internal { template<> struct is_ad<sym::Lo> : std::true_type {}; }
}
typedef sym::Lo HL;
inline HL tolo(const sym::Real& x){ return sym::Lo::exact(x); }
inline sym::Real tohi(const sym::Lo& x){ return x.re(); }
inline sym::Real fl(const sym::Real& x){ return x; }   // the symbolic input stands for a value of the narrow type
// (the driver bounds every rounding variable of a path by the unit roundoff 2^-24: harness.h run_main)
template<class S,class F> void with_roundings(hx::Rec<S>& R, F body){ body(); }
#else
typedef float HL;
inline HL tolo(double x){ return (float)x; }
inline double tohi(float x){ return (double)x; }
inline double fl(double x){ return (double)(float)x; }
template<class S,class F> void with_roundings(hx::Rec<S>& R, F body){ body(); }
#endif
using namespace gx;
template<class S> S ELO(){ return S((double)manif::Constants<float>::eps); }
template<class S> S EHI(){ return S(manif::Constants<S>::eps); }
// a rotation part that is valid in the narrow type: positive scale within the narrow acceptance threshold times an
// arbitrary unit vector (every near-unit vector is of this form)
template<class S> S near_scale(hx::Rec<S>& R){ S sc=R.var("scale",1.0); S e=ELO<S>(); R.assume(S(1.0)-e*S(0.5),1,sc); R.assume(sc,1,S(1.0)+e*S(0.5)); return sc; }
template<class S,class V> void claim_valid(hx::Rec<S>& R,const V& rot){
  S n2=rot.squaredNorm(); S e=EHI<S>();
  R.lt("valid_lo",(S(1.0)-e)*(S(1.0)-e),n2); R.lt("valid_hi",n2,(S(1.0)+e)*(S(1.0)+e)); }
template<class S,class V,class W> void claim_close(hx::Rec<S>& R,const std::string& n,const V& z,const W& q){
  S tol=ELO<S>()*S(2.0);
  for(int i=0;i<z.rows();i++){ R.le(n+"_hi"+std::to_string(i), z(i)-q(i), tol); R.le(n+"_lo"+std::to_string(i), q(i)-z(i), tol); } }
template<class S,int N> Mat<S,N,1> flv(const Mat<S,N,1>& v){ Mat<S,N,1> r; for(int i=0;i<N;i++) r(i)=fl(v(i)); return r; }
template<class S,int N> Mat<HL,N,1> lov(const Mat<S,N,1>& v){ Mat<HL,N,1> r; for(int i=0;i<N;i++) r(i)=tolo(v(i)); return r; }

ENTRY(xcast_widen_so3){ R.note("noraise","1");
  S sc=near_scale(R); Mat<S,4,1> q=flv<S,4>(unitq(R,"a",2)*sc);
  with_roundings(R,[&]{
    manif::SO3<HL> A; A.coeffs()=lov<S,4>(q);
    manif::SO3<S> Z=A.template cast<S>();
    claim_valid(R,Z.coeffs()); claim_close(R,"q",Z.coeffs(),q); });
}
ENTRY(xcast_widen_se3){ R.note("noraise","1");
  S sc=near_scale(R); Mat<S,4,1> q=flv<S,4>(unitq(R,"a",2)*sc); Mat<S,3,1> t=flv<S,3>(vec3(R,"t",WV[0]));
  with_roundings(R,[&]{
    manif::SE3<HL> A; A.coeffs().template head<3>()=lov<S,3>(t); A.coeffs().template tail<4>()=lov<S,4>(q);
    manif::SE3<S> Z=A.template cast<S>();
    claim_valid(R,Z.coeffs().template tail<4>()); claim_close(R,"q",Z.coeffs().template tail<4>(),q);
    for(int i=0;i<3;i++) R.eq("t"+std::to_string(i),Z.coeffs()(i),t(i)); });
}
ENTRY(xcast_widen_se23){ R.note("noraise","1");
  S sc=near_scale(R); Mat<S,4,1> q=flv<S,4>(unitq(R,"a",2)*sc); Mat<S,3,1> t=flv<S,3>(vec3(R,"t",WV[0])), v=flv<S,3>(vec3(R,"v",WV[1]));
  with_roundings(R,[&]{
    manif::SE_2_3<HL> A; A.coeffs().template head<3>()=lov<S,3>(t); A.coeffs().template segment<4>(3)=lov<S,4>(q); A.coeffs().template tail<3>()=lov<S,3>(v);
    manif::SE_2_3<S> Z=A.template cast<S>();
    claim_valid(R,Z.coeffs().template segment<4>(3)); claim_close(R,"q",Z.coeffs().template segment<4>(3),q);
    for(int i=0;i<3;i++){ R.eq("t"+std::to_string(i),Z.coeffs()(i),t(i)); R.eq("v"+std::to_string(i),Z.coeffs()(7+i),v(i)); } });
}
ENTRY(xcast_widen_sgal3){ R.note("noraise","1");
  S sc=near_scale(R); Mat<S,4,1> q=flv<S,4>(unitq(R,"a",2)*sc); Mat<S,3,1> t=flv<S,3>(vec3(R,"t",WV[0])), v=flv<S,3>(vec3(R,"v",WV[1])); S tt=fl(R.var("time",0.75));
  with_roundings(R,[&]{
    manif::SGal3<HL> A; A.coeffs().template head<3>()=lov<S,3>(t); A.coeffs().template segment<4>(3)=lov<S,4>(q); A.coeffs().template segment<3>(7)=lov<S,3>(v); A.coeffs()(10)=tolo(tt);
    manif::SGal3<S> Z=A.template cast<S>();
    claim_valid(R,Z.coeffs().template segment<4>(3)); claim_close(R,"q",Z.coeffs().template segment<4>(3),q);
    for(int i=0;i<3;i++){ R.eq("t"+std::to_string(i),Z.coeffs()(i),t(i)); R.eq("v"+std::to_string(i),Z.coeffs()(7+i),v(i)); } R.eq("time",Z.coeffs()(10),tt); });
}
// SO2 / SE2 cast through the angle: the wide element is rebuilt from cos/sin evaluated in the wide type
ENTRY(xcast_widen_so2){ R.note("noraise","1"); R.note("no_inverse_polar","1");
  S sc=near_scale(R); Mat<S,2,1> c=flv<S,2>(unitc(R,"a",1)*sc);
  with_roundings(R,[&]{
    manif::SO2<HL> A; A.coeffs()=lov<S,2>(c);
    manif::SO2<S> Z=A.template cast<S>();
    claim_valid(R,Z.coeffs()); });
}
ENTRY(xcast_widen_se2){ R.note("noraise","1"); R.note("no_inverse_polar","1");
  S sc=near_scale(R); Mat<S,2,1> c=flv<S,2>(unitc(R,"a",1)*sc); S x=fl(R.var("x",1.5)),y=fl(R.var("y",-2.5));
  with_roundings(R,[&]{
    manif::SE2<HL> A; A.coeffs()(0)=tolo(x); A.coeffs()(1)=tolo(y); A.coeffs().template tail<2>()=lov<S,2>(c);
    manif::SE2<S> Z=A.template cast<S>();
    claim_valid(R,Z.coeffs().template tail<2>()); R.eq("x",Z.coeffs()(0),x); R.eq("y",Z.coeffs()(1),y); });
}
// narrowing cast (wide -> narrow): the result must be valid in the narrow type (threshold 100*eps(float)) although the
// conversion of the coefficients and the re-normalisation are carried out in the narrow arithmetic
template<class S,int N> Mat<S,N,1> hiv(const Mat<HL,N,1>& v){ Mat<S,N,1> r; for(int i=0;i<N;i++) r(i)=tohi(v(i)); return r; }
template<class S,class V> void claim_valid_lo(hx::Rec<S>& R,const V& rot){
  S n2=rot.squaredNorm(); S e=ELO<S>();
  R.lt("valid_lo",(S(1.0)-e)*(S(1.0)-e),n2); R.lt("valid_hi",n2,(S(1.0)+e)*(S(1.0)+e)); }
// (the quaternion groups' narrowing cast carries 16 rounding variables through a squared norm, square root and four
// divisions: neither the canonical forms nor nlsat finish -- outside the claim, see DESIGN 0.5)
ENTRY(xcast_narrow_so2){ R.note("noraise","1"); R.note("no_inverse_polar","1");
  Mat<S,2,1> c=unitc(R,"a",1);
  with_roundings(R,[&]{
    manif::SO2<S> A(c(0),c(1));
    manif::SO2<HL> Z=A.template cast<HL>();
    Mat<HL,2,1> zc=Z.coeffs(); claim_valid_lo(R,hiv<S,2>(zc)); });
}
HX_MAIN
