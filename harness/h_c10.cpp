// C10: views over external memory (Eigen::Map, Eigen::Map<const>) behave exactly like owning objects.
// User buffers are embedded in guard zones whose cells hold distinct poison symbols.
#include "groups.h"
using namespace gx;
#ifndef TAG
#define TAG SE3t
#endif
#ifndef OFF
#define OFF 3      /* 3: guard zone of three scalars;  4: additionally shifted by one scalar (unaligned buffer) */
#endif
#define COMMON typedef typename Tg::template G<S> G; typedef typename Tg::template T<S> T; typedef typename G::Jacobian Jac; enum{D=Tg::DoF,P=Tg::P,Rp=Tg::Rep,GZ=OFF,LG=Rp+2*GZ+1,LT=D+2*GZ+1};
template<class S,int L> struct Buf { std::vector<S> v, ref; hx::Rec<S>& R; std::string nm;
  Buf(hx::Rec<S>& r,const std::string& n):R(r),nm(n){ for(int i=0;i<L;i++){ v.push_back(r.var("poison_"+n+std::to_string(i),500.0+7*i)); } ref=v; }
  template<class V> void put(const V& c,int off){ for(int i=0;i<c.rows();i++){ v[off+i]=c(i); ref[off+i]=c(i);} }
  // every cell equals the expected content: guards untouched, payload = expected
  template<class V> void expect(const std::string& what,const V& payload,int off){ for(int i=0;i<L;i++){ bool in=(i>=off && i<off+payload.rows()); R.eq(what+"."+nm+"["+std::to_string(i)+"]", v[i], in? S(payload(i-off)) : ref[i]); } }
  void untouched(const std::string& what){ for(int i=0;i<L;i++) R.eq(what+"."+nm+"["+std::to_string(i)+"]", v[i], ref[i]); }
};
#define SETUP G X=Tg::make(R,"a",0), Y=Tg::make(R,"b",1); T t=Tg::maket(R,"t",1), u=Tg::maket(R,"u",2); \
  Buf<S,LG> bx(R,"bx"), by(R,"by"); Buf<S,LT> bt(R,"bt"), bu(R,"bu"); bx.put(X.coeffs(),GZ); by.put(Y.coeffs(),GZ); bt.put(t.coeffs(),GZ); bu.put(u.coeffs(),GZ); \
  Eigen::Map<G> VX(bx.v.data()+GZ); Eigen::Map<const G> CY(by.v.data()+GZ); Eigen::Map<const G> CX(bx.v.data()+GZ); Eigen::Map<T> Vt(bt.v.data()+GZ); Eigen::Map<const T> Ct(bt.v.data()+GZ); Eigen::Map<const T> Cu(bu.v.data()+GZ);
#define GUARDS(w) bx.untouched(w); by.untouched(w); bt.untouched(w); bu.untouched(w);
template<class S,class Tg> void c10_read_compose(hx::Rec<S>& R){ COMMON SETUP
  Jac A0,B0,A1,B1; G r0=X.compose(Y,A0,B0);
  hx::eqm(R,"map*const", VX.compose(CY,A1,B1).coeffs(), r0.coeffs()); hx::eqm(R,"Ja",A1,A0); hx::eqm(R,"Jb",B1,B0);
  hx::eqm(R,"const*owning", CX.compose(Y).coeffs(), r0.coeffs()); hx::eqm(R,"owning*const", X.compose(CY).coeffs(), r0.coeffs()); hx::eqm(R,"op*", (VX*CY).coeffs(), r0.coeffs());
  hx::eqm(R,"between", VX.between(CY).coeffs(), X.between(Y).coeffs());
  GUARDS("after")
}
template<class S,class Tg> void c10_read_unary(hx::Rec<S>& R){ COMMON SETUP
  Jac A0,A1; Mat<S,P,1> p=vecn<hx::Rec<S>,P>(R,"p",1);
  hx::eqm(R,"inverse", CX.inverse(A1).coeffs(), X.inverse(A0).coeffs()); hx::eqm(R,"inverse.J",A1,A0);
  hx::eqm(R,"log", CX.log(A1).coeffs(), X.log(A0).coeffs()); hx::eqm(R,"log.J",A1,A0);
  hx::eqm(R,"act", CX.act(p), X.act(p)); hx::eqm(R,"adj", CX.adj(), X.adj()); hx::eqm(R,"transform", CX.transform(), X.transform());
  hx::eqm(R,"map.inverse", VX.inverse().coeffs(), X.inverse().coeffs());
  GUARDS("after")
}
template<class S,class Tg> void c10_read_plusminus(hx::Rec<S>& R){ COMMON SETUP
  hx::eqm(R,"rplus", VX.rplus(Ct).coeffs(), X.rplus(t).coeffs()); hx::eqm(R,"lplus", CX.lplus(Vt).coeffs(), X.lplus(t).coeffs());
  hx::eqm(R,"op+", (CX+Ct).coeffs(), X.rplus(t).coeffs());
  GUARDS("after")
}
template<class S,class Tg> void c10_read_minus(hx::Rec<S>& R){ COMMON SETUP
  hx::eqm(R,"rminus", VX.rminus(CY).coeffs(), X.rminus(Y).coeffs()); hx::eqm(R,"lminus", CX.lminus(CY).coeffs(), X.lminus(Y).coeffs());
  GUARDS("after")
}
template<class S,class Tg> void c10_read_tangent(hx::Rec<S>& R){ COMMON SETUP
  Jac A0,A1;
  hx::eqm(R,"exp", Ct.exp(A1).coeffs(), t.exp(A0).coeffs()); hx::eqm(R,"exp.J",A1,A0);
  hx::eqm(R,"hat", Ct.hat(), t.hat()); hx::eqm(R,"rjac", Ct.rjac(), t.rjac()); hx::eqm(R,"ljac", Vt.ljac(), t.ljac());
  hx::eqm(R,"rjacinv", Ct.rjacinv(), t.rjacinv()); hx::eqm(R,"ljacinv", Ct.ljacinv(), t.ljacinv()); hx::eqm(R,"smallAdj", Ct.smallAdj(), t.smallAdj());
  hx::eqm(R,"t+u", (Ct+Cu).coeffs(), (t+u).coeffs()); hx::eqm(R,"t-u", (Vt-Cu).coeffs(), (t-u).coeffs()); hx::eqm(R,"-t", (-Ct).coeffs(), (-t).coeffs());
  R.eq("inner", Ct.inner(Cu), t.inner(u)); R.eq("sqwnorm", Ct.squaredWeightedNorm(), t.squaredWeightedNorm());
  GUARDS("after")
}
// writes through a mutable view change exactly the viewed scalars
template<class S,class Tg> void c10_write_assign(hx::Rec<S>& R){ COMMON SETUP
  VX=Y; bx.expect("assign_owning",Y.coeffs(),GZ); bx.put(X.coeffs(),GZ);
  VX=CY; bx.expect("assign_const_view",Y.coeffs(),GZ); bx.put(X.coeffs(),GZ);
  { G W(CY); hx::eqm(R,"owning_from_view",W.coeffs(),Y.coeffs()); G W2; W2=VX; hx::eqm(R,"owning=view",W2.coeffs(),X.coeffs()); }
  VX=G(Y); bx.expect("move_assign",Y.coeffs(),GZ); bx.put(X.coeffs(),GZ);
  VX.coeffs()(0)=Y.coeffs()(0); { typename G::DataType e=X.coeffs(); e(0)=Y.coeffs()(0); bx.expect("coeff_write",e,GZ); } bx.put(X.coeffs(),GZ);
  Vt=u; bt.expect("t.assign_owning",u.coeffs(),GZ); bt.put(t.coeffs(),GZ);
  Vt=Cu; bt.expect("t.assign_const_view",u.coeffs(),GZ); bt.put(t.coeffs(),GZ);
  Vt.setZero(); bt.expect("t.setZero",typename T::DataType(T::DataType::Zero()),GZ); bt.put(t.coeffs(),GZ);
  Vt+=u; bt.expect("t+=u",(t.coeffs()+u.coeffs()).eval(),GZ); bt.put(t.coeffs(),GZ);
  Vt-=Cu; bt.expect("t-=u",(t.coeffs()-u.coeffs()).eval(),GZ); bt.put(t.coeffs(),GZ);
  Vt*=S(2.0); bt.expect("t*=2",(t.coeffs()*S(2.0)).eval(),GZ); bt.put(t.coeffs(),GZ);
  by.untouched("after"); bu.untouched("after");
}
// assignment between two MUTABLE views (copy and move): the destination's buffer receives the coefficients, the source buffer
// is untouched, and later writes through the destination still land in the destination's own buffer
template<class S,class Tg> void c10_write_viewview(hx::Rec<S>& R){ COMMON SETUP
  Eigen::Map<G> VY(by.v.data()+GZ); Eigen::Map<T> Vu(bu.v.data()+GZ);
  VX=VY; bx.expect("view=view",Y.coeffs(),GZ); by.untouched("view=view.src"); bx.put(X.coeffs(),GZ);
  VX=std::move(VY); bx.expect("view=move(view)",Y.coeffs(),GZ); by.untouched("view=move(view).src");
  VX.setIdentity(); bx.expect("after_move.setIdentity",G::Identity().coeffs(),GZ); by.untouched("after_move.src"); bx.put(X.coeffs(),GZ);
  Vt=Vu; bt.expect("t.view=view",u.coeffs(),GZ); bu.untouched("t.view=view.src"); bt.put(t.coeffs(),GZ);
  Vt=std::move(Vu); bt.expect("t.view=move(view)",u.coeffs(),GZ); bu.untouched("t.view=move(view).src");
  Vt.setZero(); bt.expect("t.after_move.setZero",typename T::DataType(T::DataType::Zero()),GZ); bu.untouched("t.after_move.src");
}
template<class S,class Tg> void c10_write_identity(hx::Rec<S>& R){ COMMON SETUP
  VX.setIdentity(); bx.expect("setIdentity",G::Identity().coeffs(),GZ);
  by.untouched("after"); bt.untouched("after");
}
template<class S,class Tg> void c10_write_plus(hx::Rec<S>& R){ COMMON SETUP
  G e=X.rplus(t); VX+=Ct; bx.expect("+=",e.coeffs(),GZ);
  by.untouched("after"); bt.untouched("after");
}
template<class S,class Tg> void c10_write_times(hx::Rec<S>& R){ COMMON SETUP
  G e=X.compose(Y); VX*=CY; bx.expect("*=",e.coeffs(),GZ);
  by.untouched("after"); bt.untouched("after");
}
// public sub-views of composite groups: asSO3() (const and mutable) aliases exactly the rotation coefficients
template<class S,class Tg> void c10_subviews(hx::Rec<S>& R){ COMMON
  G X=Tg::make(R,"a",0); T t=Tg::maket(R,"t",1); const G& Xc=X; const T& tc=t;
  enum{RO = (Rp>=7)?3:0, TO = (D==6)?3:((D==9)?3:((D==10)?6:0))};
  hx::eqm(R,"asSO3.const", Xc.asSO3().coeffs(), typename manif::SO3<S>::DataType(X.coeffs().template segment<4>(RO)));
  hx::eqm(R,"asSO3.mutable", X.asSO3().coeffs(), typename manif::SO3<S>::DataType(X.coeffs().template segment<4>(RO)));
  hx::eqm(R,"t.asSO3.const", tc.asSO3().coeffs(), typename manif::SO3Tangent<S>::DataType(t.coeffs().template segment<3>(TO)));
  hx::eqm(R,"t.asSO3.mutable", t.asSO3().coeffs(), typename manif::SO3Tangent<S>::DataType(t.coeffs().template segment<3>(TO)));
  R.eq("asSO3.offset", S((double)(X.asSO3().data()-X.data())), S((double)RO)); R.eq("t.asSO3.offset", S((double)(t.asSO3().data()-t.data())), S((double)TO));
  typename T::DataType before=t.coeffs(); t.asSO3().coeffs()(1)=R.var("w",7.5); typename T::DataType exp_=before; exp_(TO+1)=R.var("w",7.5); hx::eqm(R,"t.asSO3.write", t.coeffs(), exp_);
}
#ifdef HAS_ASSO3
ENTRY_T(c10_subviews, TAG)
#endif
ENTRY_T(c10_read_compose, TAG)
ENTRY_T(c10_read_unary, TAG)
ENTRY_T(c10_read_plusminus, TAG)
ENTRY_T(c10_read_minus, TAG)
ENTRY_T(c10_read_tangent, TAG)
ENTRY_T(c10_write_assign, TAG)
ENTRY_T(c10_write_viewview, TAG)
ENTRY_T(c10_write_identity, TAG)
ENTRY_T(c10_write_plus, TAG)
ENTRY_T(c10_write_times, TAG)
HX_MAIN
