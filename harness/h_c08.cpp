// C08: elements stay valid under arbitrarily long histories -- one inductive step from an arbitrary state
// satisfying the invariant Inv(X): | |rot(X)|^2 - 1 | <= eps  (the library's own renormalisation threshold).
#include "groups.h"
using namespace gx;
#ifndef TAG
#define TAG SO3t
#endif
#define COMMON typedef typename Tg::template G<S> G; typedef typename Tg::template T<S> T;
template<class S> S EPS(){ return S(manif::Constants<S>::eps); }
// the renormalisation polynomial: for every m reachable as a product of two invariant states the renormalised
// squared norm m*f(m)^2 is back inside the invariant (in fact far inside)
ENTRY(c08_sqrtinv){
  S m=R.var("m",1.0000000000001); S e=EPS<S>();
  R.assume((S(1.0)-e)*(S(1.0)-e),1,m); R.assume(m,1,(S(1.0)+e)*(S(1.0)+e));
  S f=manif::approxSqrtInv(m);
  S g=m*f*f;
  R.le("lo", S(1.0)-e, g); R.le("hi", g, S(1.0)+e);
  // tighter: the deviation is contracted by at least a factor 1e6  (|g-1| <= 1e-6*eps)
  R.le("lo_tight", S(1.0)-e*S(1e-6), g); R.le("hi_tight", g, S(1.0)+e*S(1e-6));
}
// acceptance predicate of the assertion-enabled constructors: Inv implies | |q| - 1 | < eps
ENTRY(c08_accept){
  S m=R.var("m",1.00000000000001); S e=EPS<S>();
  R.assume(S(1.0)-e,1,m); R.assume(m,1,S(1.0)+e);
  using std::sqrt; S n=sqrt(m);
  R.lt("lo", S(1.0)-e, n); R.lt("hi", n, S(1.0)+e);
}
ENTRY(c08_prod){
  S a=R.var("a",1.00000000000001), b=R.var("b",0.99999999999999); S e=EPS<S>();
  R.assume(S(1.0)-e,1,a); R.assume(a,1,S(1.0)+e); R.assume(S(1.0)-e,1,b); R.assume(b,1,S(1.0)+e);
  R.le("lo",(S(1.0)-e)*(S(1.0)-e),a*b); R.le("hi",a*b,(S(1.0)+e)*(S(1.0)+e));
}
template<class S,class Tg> void c08_compose(hx::Rec<S>& R){ COMMON
  R.inv_mode=true;
  G X=Tg::make(R,"a",0), Y=Tg::make(R,"b",1);
  S nx=Tg::template erotsq<S>(X)+Tg::template ew<S>(X)*Tg::template ew<S>(X), ny=Tg::template erotsq<S>(Y)+Tg::template ew<S>(Y)*Tg::template ew<S>(Y);
  G Z=X.compose(Y);
  S nz=Tg::template erotsq<S>(Z)+Tg::template ew<S>(Z)*Tg::template ew<S>(Z);
  S n=nx*ny; S f=manif::approxSqrtInv(n);
  // the harness repeats the library's test on n = |X|^2 |Y|^2 (same canonical polynomial, so inconsistent combinations are infeasible)
  using std::abs; S e=EPS<S>();
  if (abs(n-S(1.0)) > e) R.eq("renormalised", nz, n*f*f);   // then c08_sqrtinv + c08_prod give Inv(Z)
  else R.eq("plain", nz, n);   // the path condition of this branch is literally Inv(Z)
}
template<class S,class Tg> void c08_inverse(hx::Rec<S>& R){ COMMON
  R.inv_mode=true;
  G X=Tg::make(R,"a",0);
  S nx=Tg::template erotsq<S>(X)+Tg::template ew<S>(X)*Tg::template ew<S>(X);
  G Z=X.inverse();
  S nz=Tg::template erotsq<S>(Z)+Tg::template ew<S>(Z)*Tg::template ew<S>(Z); S e=EPS<S>();
  if (Tg::Rep==2 || Tg::Rep==4 && Tg::DoF==3 && Tg::P==2) { R.le("lo", S(1.0)-e, nz); R.le("hi", nz, S(1.0)+e); }   // SO2/SE2 rebuild the rotation from the angle
  else R.eq("sqnorm", nz, nx);
}
template<class S,class Tg> void c08_exp(hx::Rec<S>& R){ COMMON
  T t=Tg::maket(R,"t",0);
  G Z=t.exp();
  S nz=Tg::template erotsq<S>(Z)+Tg::template ew<S>(Z)*Tg::template ew<S>(Z); S e=EPS<S>();
  R.le("lo", S(1.0)-e, nz); R.le("hi", nz, S(1.0)+e);
}
ENTRY_T(c08_compose, TAG)
ENTRY_T(c08_inverse, TAG)
ENTRY_T(c08_exp, TAG)
HX_MAIN
