// C02: exp is the matrix exponential of hat. ODE characterisation through dual numbers:
// d/ds M(exp(s t)) at s=1 equals hat(t) M(exp t)   (with M(exp(0))=I this defines the matrix exponential along the ray)
#include "groups.h"
using namespace gx;
#ifndef TAG
#define TAG SE3t
#endif
template<class S,class Tg> void c02_ode(hx::Rec<S>& R){
  typedef sym::Jet<S,1> J; typedef typename Tg::template T<J> TJ; typedef typename Tg::template T<S> T;
  T t=MAKET(Tg,R,"t",0);
  typename TJ::DataType tv; for(int i=0;i<Tg::DoF;i++){ J x(t.coeffs()(i)); x.v[0]=t.coeffs()(i); tv(i)=x; }  // s*t at s=1, d/ds = t
  TJ tj(tv);
  auto X=tj.exp();
  Mat<J,Tg::H> MJ=Tg::template M<J>(X);
  Mat<S,Tg::H> M0,dM; for(int i=0;i<Tg::H;i++)for(int j=0;j<Tg::H;j++){ M0(i,j)=MJ(i,j).a; dM(i,j)=MJ(i,j).v[0]; }
  hx::eqm(R,"ode", dM, (Tg::template hat<S>(t)*M0).eval());
  // primal part equals the plain run
  auto X0=t.exp();
  for(int i=0;i<Tg::Rep;i++) R.eq("primal("+std::to_string(i)+")", X.coeffs()(i).a, X0.coeffs()(i));
  // library hat agrees with the documented hat used above
  hx::eqm(R,"hat", t.hat(), Tg::template alg<S>(t));
}
template<class S,class Tg> void c02_zero(hx::Rec<S>& R){
  typedef typename Tg::template T<S> T; typedef Mat<S,Tg::H> MH;
  T z=T::Zero();
  hx::eqm(R,"exp0", Tg::template M<S>(z.exp()), MH(MH::Identity()));
}
ENTRY_T(c02_ode, TAG)
ENTRY_T(c02_zero, TAG)
HX_MAIN
