// C14: const API entry points whose shared-memory skeleton is extracted from LLVM IR.
#include "manif/manif.h"
using namespace manif;
#define NOINL extern "C" __attribute__((noinline))
NOINL void e_SE3_Identity(double* out){ SE3d I = SE3d::Identity(); for(int i=0;i<7;i++) out[i]=I.coeffs()(i); }
NOINL void e_SE3Tangent_Zero(double* out){ SE3Tangentd t = SE3Tangentd::Zero(); for(int i=0;i<6;i++) out[i]=t.coeffs()(i); }
NOINL void e_SE3_Generator(unsigned i, double* out){ auto G = SE3Tangentd::Generator(i); out[0]=G(0,0); }
NOINL void e_SE2_InnerWeights(double* out){ auto W = SE2Tangentd::InnerWeights(); out[0]=W(0,0); }
NOINL void e_SE3_InnerWeights(double* out){ auto W = SE3Tangentd::InnerWeights(); out[0]=W(0,0); }
NOINL void e_SO2_adj(const SO2d* X, double* out){ auto A = X->adj(); out[0]=A(0,0); }
NOINL void e_SO2Tangent_jacs(const SO2Tangentd* t, double* out){ out[0]=t->rjac()(0,0)+t->ljac()(0,0)+t->smallAdj()(0,0); }
NOINL void e_R3_adj(const R3d* X, double* out){ auto A = X->adj(); out[0]=A(0,0); }
NOINL void e_R3Tangent_jacs(const R3Tangentd* t, double* out){ out[0]=t->rjac()(0,0)+t->ljac()(0,0)+t->smallAdj()(0,0); }
NOINL void e_SE3_compose(const SE3d* X, const SE3d* Y, double* out){ SE3d Z = X->compose(*Y); for(int i=0;i<7;i++) out[i]=Z.coeffs()(i); }
NOINL void e_SE3_log(const SE3d* X, double* out){ SE3Tangentd t = X->log(); for(int i=0;i<6;i++) out[i]=t.coeffs()(i); }
NOINL void e_SE3_act(const SE3d* X, const double* p, double* out){ Eigen::Vector3d v(p[0],p[1],p[2]); Eigen::Vector3d q = X->act(v); out[0]=q(0); out[1]=q(1); out[2]=q(2); }
NOINL void e_SO3Tangent_exp(const SO3Tangentd* t, double* out){ SO3d X = t->exp(); for(int i=0;i<4;i++) out[i]=X.coeffs()(i); }
NOINL void e_SO2_setIdentity(double* out){ SO2d X; X.setIdentity(); out[0]=X.real(); }
typedef Bundle<double, SO2, SE3, R3> Bd; typedef BundleTangent<double, SO2, SE3, R3> Btd;
NOINL void e_Bundle_rjac(const Btd* t, double* out){ auto J = t->rjac(); out[0]=J(0,0); }
NOINL void e_Bundle_compose(const Bd* X, const Bd* Y, double* out){ Bd Z = X->compose(*Y); out[0]=Z.coeffs()(0); }
NOINL void e_SE2Tangent_rjac(const SE2Tangentd* t, double* out){ auto J = t->rjac(); out[0]=J(0,0); }
NOINL void e_SGal3_InnerWeights(double* out){ auto W = SGal3Tangentd::InnerWeights(); out[0]=W(0,0); }
NOINL void e_SE3_adj(const SE3d* X, double* out){ auto A = X->adj(); out[0]=A(0,0); }
NOINL void e_SE2_adj(const SE2d* X, double* out){ auto A = X->adj(); out[0]=A(0,0); }
NOINL void e_SO3_adj(const SO3d* X, double* out){ auto A = X->adj(); out[0]=A(0,0); }
NOINL void e_SE_2_3_adj(const SE_2_3d* X, double* out){ auto A = X->adj(); out[0]=A(0,0); }
NOINL void e_SGal3_adj(const SGal3d* X, double* out){ auto A = X->adj(); out[0]=A(0,0); }
NOINL void e_SE3_compose_J(const SE3d* X, const SE3d* Y, double* out){ SE3d::Jacobian Ja,Jb; SE3d Z = X->compose(*Y,Ja,Jb); out[0]=Z.coeffs()(0)+Ja(0,0)+Jb(0,0); }
NOINL void e_SE3_rminus_J(const SE3d* X, const SE3d* Y, double* out){ SE3d::Jacobian Ja,Jb; SE3Tangentd t = X->rminus(*Y,Ja,Jb); out[0]=t.coeffs()(0)+Ja(0,0)+Jb(0,0); }
NOINL void e_SE2_exp_J(const SE2Tangentd* t, double* out){ SE2d::Jacobian J; SE2d X = t->exp(J); out[0]=X.x()+J(0,0); }
// tangent-side const API of the composite groups: smallAdj / bracket / hat / rjac / ljac / inverses
#define TGT(NAME, T) NOINL void e_##NAME##_smallAdj(const T* t, double* out){ auto A = t->smallAdj(); out[0]=A(0,0); } \
  NOINL void e_##NAME##_bracket(const T* a, const T* b, double* out){ T c = a->bracket(*b); out[0]=c.coeffs()(0); } \
  NOINL void e_##NAME##_hat(const T* t, double* out){ auto H = t->hat(); out[0]=H(0,0); }
TGT(SE3Tangent, SE3Tangentd) TGT(SE2Tangent, SE2Tangentd) TGT(SO3Tangent, SO3Tangentd) TGT(SE_2_3Tangent, SE_2_3Tangentd) TGT(SGal3Tangent, SGal3Tangentd)
NOINL void e_SE3Tangent_jacs(const SE3Tangentd* t, double* out){ out[0]=t->rjac()(0,0)+t->ljac()(0,0)+t->rjacinv()(0,0)+t->ljacinv()(0,0); }
NOINL void e_SO3Tangent_jacs(const SO3Tangentd* t, double* out){ out[0]=t->rjac()(0,0)+t->ljac()(0,0)+t->rjacinv()(0,0)+t->ljacinv()(0,0); }
// generator index dispatch (C07): one wrapper per tangent type; irx encodes the callee's CFG over 32-bit bit-vectors
#define GEN(NAME, T) NOINL void g_##NAME(int i, double* out){ auto G = T::Generator(i); out[0]=G(0,0); }
GEN(SO2, SO2Tangentd) GEN(SE2, SE2Tangentd) GEN(SO3, SO3Tangentd) GEN(SE3, SE3Tangentd) GEN(SE_2_3, SE_2_3Tangentd) GEN(SGal3, SGal3Tangentd) GEN(R3, R3Tangentd) GEN(Bundle, Btd)
