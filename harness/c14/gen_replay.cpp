// replay of an index-dispatch counterexample: gen_replay <group> <index>  -> prints "returned" or "raised"
#include "manif/manif.h"
#include <iostream>
#include <cstring>
using namespace manif;
typedef BundleTangent<double, SO2, SE3, R3> Btd;
template<class T> int go(long i){ try{ auto G=T::Generator((int)i); (void)G; std::cout<<"returned\n"; }catch(std::exception& e){ std::cout<<"raised "<<e.what()<<"\n"; } return 0; }
int main(int c,char**v){ long i=atol(v[2]); std::string g=v[1];
 if(g=="SO2") return go<SO2Tangentd>(i); if(g=="SE2") return go<SE2Tangentd>(i); if(g=="SO3") return go<SO3Tangentd>(i); if(g=="SE3") return go<SE3Tangentd>(i);
 if(g=="SE_2_3") return go<SE_2_3Tangentd>(i); if(g=="SGal3") return go<SGal3Tangentd>(i); if(g=="R3") return go<R3Tangentd>(i); if(g=="Bundle") return go<Btd>(i); return 2; }
