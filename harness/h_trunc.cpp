// TRUNC: Taylor (small-angle) branches against the generic-branch formula of the same real function.
// Each function is run twice on the same symbols: normally, and with comparisons against Constants::eps forced to
// the "large" outcome (so the generic closed form is recorded even on the Taylor region).
#include "groups.h"
using namespace gx;
#ifndef TAG
#define TAG SE3t
#endif
#define COMMON typedef typename Tg::template G<S> G; typedef typename Tg::template T<S> T; typedef typename G::Jacobian Jac;
template<class R,class A,class B> void apm(R& rec,const std::string& n,const A& a,const B& b,const char* cls){
  for(int i=0;i<a.rows();i++)for(int j=0;j<a.cols();j++) rec.approx(n+"("+std::to_string(i)+","+std::to_string(j)+")",a(i,j),b(i,j),cls); }
template<class S,class Tg> void tr_exp(hx::Rec<S>& R){ COMMON
  T t=Tg::maket(R,"t",3); Jac Jt,Jg;
  assume_rot_positive<Tg>(R,t);
  G Xt=t.exp(Jt);
  R.force_generic(true); G Xg=t.exp(Jg); R.force_generic(false);
  apm(R,"exp",Xt.coeffs(),Xg.coeffs(),"value");
  apm(R,"Jexp",Jt,Jg,"jac");
}
template<class S,class Tg> void tr_jacs(hx::Rec<S>& R){ COMMON
  T t=Tg::maket(R,"t",3);
  assume_rot_positive<Tg>(R,t); assume_rot_below_pi<Tg>(R,t);
  Jac a1=t.rjac(), a2=t.ljac(), a3=t.rjacinv(), a4=t.ljacinv();
  R.force_generic(true); Jac b1=t.rjac(), b2=t.ljac(), b3=t.rjacinv(), b4=t.ljacinv(); R.force_generic(false);
  apm(R,"rjac",a1,b1,"jac"); apm(R,"ljac",a2,b2,"jac"); apm(R,"rjacinv",a3,b3,"jac"); apm(R,"ljacinv",a4,b4,"jac");
}
template<class S,class Tg> void tr_log(hx::Rec<S>& R){ COMMON
  G X=Tg::make(R,"a",0); Jac Jt,Jg;
  assume_elem_rot_positive<Tg>(R,X); assume_not_half_turn<Tg>(R,X);
  T lt=X.log(Jt);
  R.force_generic(true); T lg=X.log(Jg); R.force_generic(false);
  apm(R,"log",lt.coeffs(),lg.coeffs(),"value");
  apm(R,"Jlog",Jt,Jg,"jac");
}
ENTRY_T(tr_exp, TAG)
ENTRY_T(tr_jacs, TAG)
ENTRY_T(tr_log, TAG)
HX_MAIN
