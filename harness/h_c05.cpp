// C05: every analytic Jacobian is the true derivative (right Jacobian on the tangent space).
// The argument is perturbed to first order independently of the library's exp (groups.h: perturb), the real
// operation is run over dual numbers, and d/dd_k of the result is compared with the analytic Jacobian:
//   group-valued f:  dM(f)/dd_k = M(f) hat(J e_k)       vector-valued f:  df/dd_k = J e_k
#include "groups.h"
using namespace gx;
#ifndef TAG
#define TAG SE3t
#endif
template<class Tg,class S,class J,class YJ,class JAC> void check_group_out(hx::Rec<S>& R,const std::string& n,const YJ& Yj,const JAC& Ja,int ND){
  typedef typename Tg::template T<S> T;
  Mat<J,Tg::H> MJ=Tg::template M<J>(Yj);
  Mat<S,Tg::H> M0; for(int i=0;i<Tg::H;i++)for(int j=0;j<Tg::H;j++) M0(i,j)=MJ(i,j).a;
  for(int k=0;k<ND;k++){
    T col(typename T::DataType(Ja.col(k)));
    Mat<S,Tg::H> rhs=(M0*Tg::template hat<S>(col)).eval();
    for(int i=0;i<Tg::H;i++)for(int j=0;j<Tg::H;j++) R.eq(n+"[d"+std::to_string(k)+"]("+std::to_string(i)+","+std::to_string(j)+")", MJ(i,j).v[k], rhs(i,j));
  }
}
template<class S,class J,class VJ,class JAC> void check_vec_out(hx::Rec<S>& R,const std::string& n,const VJ& vj,const JAC& Ja,int ND){
  for(int k=0;k<ND;k++) for(int i=0;i<vj.rows();i++) R.eq(n+"[d"+std::to_string(k)+"]("+std::to_string(i)+")", vj(i).v[k], Ja(i,k));
}
template<class S,class J,int N> Mat<J,N,1> seedv(const Mat<S,N,1>& v,int off=0){ Mat<J,N,1> r; for(int i=0;i<N;i++){ r(i)=J(v(i)); r(i).v[off+i]=S(1.0);} return r; }
template<class J,int N> Mat<J,N,1> dvec(){ Mat<J,N,1> d; for(int i=0;i<N;i++){ d(i)=J(0.0); d(i).v[i]=typename std::remove_reference<decltype(d(i).a)>::type(1.0);} return d; }
#define COMMON typedef sym::Jet<S,Tg::DoF> J; typedef typename Tg::template G<S> G; typedef typename Tg::template T<S> T; typedef typename Tg::template G<J> GJ; typedef typename Tg::template T<J> TJ; typedef typename G::Jacobian Jac; enum{D=Tg::DoF};

template<class S,class Tg> void c05_inverse(hx::Rec<S>& R){ COMMON
  G X=Tg::make(R,"a",0); Jac Ja; X.inverse(Ja);
  GJ Xp=perturb<Tg,J>(X,dvec<J,D>());
  check_group_out<Tg,S,J>(R,"inv",Xp.inverse(),Ja,D);
}
template<class S,class Tg> void c05_log(hx::Rec<S>& R){ COMMON
  G X=Tg::make(R,"a",0); Jac Ja; T t=X.log(Ja);
  assume_rot_below_pi<Tg>(R,t);
  GJ Xp=perturb<Tg,J>(X,dvec<J,D>());
  check_vec_out<S,J>(R,"log",Xp.log().coeffs(),Ja,D);
}
template<class S,class Tg> void c05_exp(hx::Rec<S>& R){ COMMON
  T t=MAKET(Tg,R,"t",0); Jac Ja; t.exp(Ja);
  TJ tp(seedv<S,J,D>(typename T::DataType(t.coeffs())));
  check_group_out<Tg,S,J>(R,"exp",tp.exp(),Ja,D);
}
template<class S,class Tg> void c05_compose(hx::Rec<S>& R){ COMMON
  G X=Tg::make(R,"a",0), Y=Tg::make(R,"b",1); Jac Ja,Jb; X.compose(Y,Ja,Jb);
  GJ Xl(liftv<J>(X.coeffs())), Yl(liftv<J>(Y.coeffs()));
  check_group_out<Tg,S,J>(R,"Ja",perturb<Tg,J>(X,dvec<J,D>()).compose(Yl),Ja,D);
  check_group_out<Tg,S,J>(R,"Jb",Xl.compose(perturb<Tg,J>(Y,dvec<J,D>())),Jb,D);
}
template<class S,class Tg> void c05_between(hx::Rec<S>& R){ COMMON
  G X=Tg::make(R,"a",0), Y=Tg::make(R,"b",1); Jac Ja,Jb; X.between(Y,Ja,Jb);
  GJ Xl(liftv<J>(X.coeffs())), Yl(liftv<J>(Y.coeffs()));
  check_group_out<Tg,S,J>(R,"Ja",perturb<Tg,J>(X,dvec<J,D>()).between(Yl),Ja,D);
  check_group_out<Tg,S,J>(R,"Jb",Xl.between(perturb<Tg,J>(Y,dvec<J,D>())),Jb,D);
}
// Two-argument derived operations: expression swell makes the fully symbolic canonical forms explode (13+ variables),
// so one argument is symbolic and the other is concretised to exact rational points K (DESIGN 3.4, stated bound).
#ifndef KIDX
#define KIDX 0
#endif
template<class S,class Tg> void c05_rplus_symX(hx::Rec<S>& R){ COMMON
  G X=Tg::make(R,"a",0); T t=Tg::maketc(R,KIDX); Jac Ja,Jt; X.rplus(t,Ja,Jt);
  TJ tl(liftv<J>(t.coeffs()));
  check_group_out<Tg,S,J>(R,"Jm",perturb<Tg,J>(X,dvec<J,D>()).rplus(tl),Ja,D);
  Jac Pa,Pt; X.plus(t,Pa,Pt); hx::eqm(R,"plusJm",Pa,Ja); hx::eqm(R,"plusJt",Pt,Jt);
}
template<class S,class Tg> void c05_rplus_symT(hx::Rec<S>& R){ COMMON
  G X=Tg::makec(R,KIDX); T t=Tg::maket(R,"t",1); Jac Ja,Jt; X.rplus(t,Ja,Jt);
  GJ Xl(liftv<J>(X.coeffs()));
  check_group_out<Tg,S,J>(R,"Jt",Xl.rplus(TJ(seedv<S,J,D>(typename T::DataType(t.coeffs())))),Jt,D);
}
template<class S,class Tg> void c05_lplus_symX(hx::Rec<S>& R){ COMMON
  G X=Tg::make(R,"a",0); T t=Tg::maketc(R,KIDX); Jac Ja,Jt; X.lplus(t,Ja,Jt);
  TJ tl(liftv<J>(t.coeffs()));
  check_group_out<Tg,S,J>(R,"Jm",perturb<Tg,J>(X,dvec<J,D>()).lplus(tl),Ja,D);
  GJ Xl(liftv<J>(X.coeffs()));
  check_group_out<Tg,S,J>(R,"Jt",Xl.lplus(TJ(seedv<S,J,D>(typename T::DataType(t.coeffs())))),Jt,D);
}
template<class S,class Tg> void c05_lplus_symT(hx::Rec<S>& R){ COMMON
  G X=Tg::makec(R,KIDX); T t=Tg::maket(R,"t",1); Jac Ja,Jt; X.lplus(t,Ja,Jt);
  GJ Xl(liftv<J>(X.coeffs())); TJ tl(liftv<J>(t.coeffs()));
  check_group_out<Tg,S,J>(R,"Jm",perturb<Tg,J>(X,dvec<J,D>()).lplus(tl),Ja,D);
  check_group_out<Tg,S,J>(R,"Jt",Xl.lplus(TJ(seedv<S,J,D>(typename T::DataType(t.coeffs())))),Jt,D);
}
template<class S,class Tg> void c05_rminus_symX(hx::Rec<S>& R){ COMMON
  G Y=Tg::makec(R,KIDX), Z=Tg::make(R,"z",0); G X=hcompose<Tg,S>(Y,Z);   // X = Y*Z, Z symbolic: X ranges over all valid elements
  Jac Ja,Jb; T t=X.rminus(Y,Ja,Jb);
  assume_rot_below_pi<Tg>(R,t);
  GJ Xl(liftv<J>(X.coeffs())), Yl(liftv<J>(Y.coeffs()));
  check_vec_out<S,J>(R,"Ja",perturb<Tg,J>(X,dvec<J,D>()).rminus(Yl).coeffs(),Ja,D);
  check_vec_out<S,J>(R,"Jb",Xl.rminus(perturb<Tg,J>(Y,dvec<J,D>())).coeffs(),Jb,D);
  Jac Pa,Pb; X.minus(Y,Pa,Pb); hx::eqm(R,"minusJa",Pa,Ja); hx::eqm(R,"minusJb",Pb,Jb);
}
template<class S,class Tg> void c05_rminus_symY(hx::Rec<S>& R){ COMMON
  G X=Tg::makec(R,KIDX), V=Tg::make(R,"v",1); G Y=hcompose<Tg,S>(X,V);   // Y = X*V, V symbolic
  Jac Ja,Jb; T t=X.rminus(Y,Ja,Jb);
  assume_rot_below_pi<Tg>(R,t);
  GJ Xl(liftv<J>(X.coeffs())), Yl(liftv<J>(Y.coeffs()));
  check_vec_out<S,J>(R,"Ja",perturb<Tg,J>(X,dvec<J,D>()).rminus(Yl).coeffs(),Ja,D);
  check_vec_out<S,J>(R,"Jb",Xl.rminus(perturb<Tg,J>(Y,dvec<J,D>())).coeffs(),Jb,D);
}
template<class S,class Tg> void c05_lminus_symX(hx::Rec<S>& R){ COMMON
  G Y=Tg::makec(R,KIDX), Z=Tg::make(R,"z",0); G X=hcompose<Tg,S>(Z,Y);   // X = Z*Y
  Jac Ja,Jb; T t=X.lminus(Y,Ja,Jb);
  assume_rot_below_pi<Tg>(R,t);
  GJ Xl(liftv<J>(X.coeffs())), Yl(liftv<J>(Y.coeffs()));
  check_vec_out<S,J>(R,"Ja",perturb<Tg,J>(X,dvec<J,D>()).lminus(Yl).coeffs(),Ja,D);
  check_vec_out<S,J>(R,"Jb",Xl.lminus(perturb<Tg,J>(Y,dvec<J,D>())).coeffs(),Jb,D);
}
template<class S,class Tg> void c05_lminus_symY(hx::Rec<S>& R){ COMMON
  G X=Tg::makec(R,KIDX), V=Tg::make(R,"v",1); G Y=hcompose<Tg,S>(V,X);   // Y = V*X
  Jac Ja,Jb; T t=X.lminus(Y,Ja,Jb);
  assume_rot_below_pi<Tg>(R,t);
  GJ Xl(liftv<J>(X.coeffs())), Yl(liftv<J>(Y.coeffs()));
  check_vec_out<S,J>(R,"Ja",perturb<Tg,J>(X,dvec<J,D>()).lminus(Yl).coeffs(),Ja,D);
  check_vec_out<S,J>(R,"Jb",Xl.lminus(perturb<Tg,J>(Y,dvec<J,D>())).coeffs(),Jb,D);
}
template<class S,class Tg> void c05_act(hx::Rec<S>& R){ COMMON
  enum{P=Tg::P};
  G X=Tg::make(R,"a",0); Mat<S,P,1> p=vecn<hx::Rec<S>,P>(R,"p",1);
  Mat<S,P,D> Jm; Mat<S,P,P> Jp; X.act(p,Jm,Jp);
  GJ Xl(liftv<J>(X.coeffs()));
  Mat<J,P,1> pl=liftv<J>(p);
  check_vec_out<S,J>(R,"Jm",perturb<Tg,J>(X,dvec<J,D>()).act(pl),Jm,D);
  typedef sym::Jet<S,P> JP; typedef typename Tg::template G<JP> GP;
  GP Xq(liftv<JP>(X.coeffs()));
  check_vec_out<S,JP>(R,"Jp",Xq.act(seedv<S,JP,P>(p)),Jp,P);
}
template<class S,class Tg> void c05_tangent(hx::Rec<S>& R){ COMMON
  T a=Tg::maket(R,"a",0), b=Tg::maket(R,"b",1); Jac Ja,Jb;
  T s=a.plus(b,Ja,Jb); hx::eqm(R,"plus",s.coeffs(),(a.coeffs()+b.coeffs()).eval());
  hx::eqm(R,"plusJa",Ja,Jac(Jac::Identity())); hx::eqm(R,"plusJb",Jb,Jac(Jac::Identity()));
  T m=a.minus(b,Ja,Jb); hx::eqm(R,"minus",m.coeffs(),(a.coeffs()-b.coeffs()).eval());
  hx::eqm(R,"minusJa",Ja,Jac(Jac::Identity())); hx::eqm(R,"minusJb",Jb,Jac(-Jac::Identity()));
}
// Coordinates that are exactly ZERO but carry a derivative (the classic pitfall of branching on the primal value of a
// dual number): the element / tangent sits at an exact rational point with coordinate ZCOORD set to 0; the dual-number
// derivative of log / exp there must still equal the analytic Jacobian.
#ifdef ZCOORD
template<class S,class Tg> void c05_log_zero_coord(hx::Rec<S>& R){ COMMON
  typename G::DataType c=Tg::makec(R,0).coeffs(); c(ZCOORD)=S(0.0); G X(c); Jac Ja; T t=X.log(Ja);
  GJ Xp=perturb<Tg,J>(X,dvec<J,D>());
  check_vec_out<S,J>(R,"log",Xp.log().coeffs(),Ja,D);
}
template<class S,class Tg> void c05_exp_zero_coord(hx::Rec<S>& R){ COMMON
  typename T::DataType c=Tg::maketc(R,0).coeffs(); c(ZTCOORD)=S(0.0); T t(c); Jac Ja; t.exp(Ja);
  TJ tp(seedv<S,J,D>(typename T::DataType(t.coeffs())));
  check_group_out<Tg,S,J>(R,"exp",tp.exp(),Ja,D);
}
ENTRY_T(c05_log_zero_coord, TAG)
ENTRY_T(c05_exp_zero_coord, TAG)
#endif
ENTRY_T(c05_inverse, TAG)
ENTRY_T(c05_log, TAG)
ENTRY_T(c05_exp, TAG)
ENTRY_T(c05_compose, TAG)
ENTRY_T(c05_between, TAG)
ENTRY_T(c05_rplus_symX, TAG)
ENTRY_T(c05_rplus_symT, TAG)
ENTRY_T(c05_lplus_symX, TAG)
ENTRY_T(c05_lplus_symT, TAG)
ENTRY_T(c05_rminus_symX, TAG)
ENTRY_T(c05_rminus_symY, TAG)
ENTRY_T(c05_lminus_symX, TAG)
ENTRY_T(c05_lminus_symY, TAG)
ENTRY_T(c05_act, TAG)
ENTRY_T(c05_tangent, TAG)
HX_MAIN
