// COND (restricted rounding model): outputs of the numerically delicate closed forms on their generic branches.
// Python (vlib/cond.py) bounds the amplification a * d(out)/d(a) of a relative perturbation of each libm result
// a in {sin, cos, sqrt atoms} over decades of the rotation magnitude.
#include "groups.h"
using namespace gx;
#ifndef TAG
#define TAG SE2t
#endif
#define COMMON typedef typename Tg::template G<S> G; typedef typename Tg::template T<S> T; typedef typename G::Jacobian Jac;
template<class S,class Tg> void cond_jacs(hx::Rec<S>& R){ COMMON
  T t=Tg::maket(R,"t",3); assume_rot_positive<Tg>(R,t);
  hx::outm(R,"rjac",t.rjac()); hx::outm(R,"ljac",t.ljac()); hx::outm(R,"rjacinv",t.rjacinv()); hx::outm(R,"ljacinv",t.ljacinv());
}
template<class S,class Tg> void cond_exp(hx::Rec<S>& R){ COMMON
  T t=Tg::maket(R,"t",3); assume_rot_positive<Tg>(R,t); Jac J;
  G X=t.exp(J); hx::outm(R,"exp",X.coeffs()); hx::outm(R,"Jexp",J);
}
ENTRY_T(cond_jacs, TAG)
ENTRY_T(cond_exp, TAG)
HX_MAIN
