// symx: a second symbolic scalar standing for the NARROWER floating type of a cross-precision cast<>().
// sym::Lo values live in the same DAG as sym::Real; every arithmetic result of Lo is the exact result times
// (1 + d) with a fresh variable d per rounded node, |d| <= u (the harness assumes the bound: standard model of
// floating-point arithmetic, no underflow/overflow). Lo -> Real is the exact embedding (float -> double is exact),
// Real -> Lo rounds. sym::Real itself stays exact (its own rounding, 2^-53, is far below every threshold checked).
#pragma once
#include "sym.h"
#include <set>
namespace sym {
// rnd(), rnd_log(), lo_unit_roundoff(): see sym.h
struct Lo {
  int id;
  Lo() : id(Real(0.0).id) {}
  Lo(double v) : id(Real((double)(float)v).id) {}
  Lo(float v) : id(Real((double)v).id) {}
  Lo(int v) : Lo((double)v) {}
  Lo(long v) : Lo((double)v) {}
  Lo(long long v) : Lo((double)v) {}
  Lo(unsigned v) : Lo((double)v) {}
  Lo(unsigned long v) : Lo((double)v) {}
  Lo(unsigned long long v) : Lo((double)v) {}
  explicit Lo(const Real& r) : id(rnd(r).id) {}                 // narrowing conversion rounds
  static Lo exact(const Real& r){ Lo l; l.id=r.id; return l; }   // r is (assumed to be) a value of the narrow type
  Real re() const { return Real::from(id); }
  explicit operator Real() const { return re(); }                // widening conversion is exact
  double val() const { return re().val(); }
  explicit operator double() const { return val(); }
  explicit operator float() const { return (float)val(); }
  explicit operator int() const { return (int)val(); }
  explicit operator long() const { return (long)val(); }
  Lo& operator+=(const Lo& o); Lo& operator-=(const Lo& o); Lo& operator*=(const Lo& o); Lo& operator/=(const Lo& o);
};
inline Lo lo_r(const Real& x){ return Lo::exact(rnd(x)); }
inline Lo operator+(const Lo& a,const Lo& b){ return lo_r(a.re()+b.re()); }
inline Lo operator-(const Lo& a,const Lo& b){ return lo_r(a.re()-b.re()); }
inline Lo operator*(const Lo& a,const Lo& b){ return lo_r(a.re()*b.re()); }
inline Lo operator/(const Lo& a,const Lo& b){ return lo_r(a.re()/b.re()); }
inline Lo operator-(const Lo& a){ return Lo::exact(-a.re()); }
inline Lo operator+(const Lo& a){ return a; }
inline Lo& Lo::operator+=(const Lo& o){ *this=*this+o; return *this; }
inline Lo& Lo::operator-=(const Lo& o){ *this=*this-o; return *this; }
inline Lo& Lo::operator*=(const Lo& o){ *this=*this*o; return *this; }
inline Lo& Lo::operator/=(const Lo& o){ *this=*this/o; return *this; }
#define SYM_LO_UN(f) inline Lo f(const Lo& a){ return lo_r(f(a.re())); }
SYM_LO_UN(sin) SYM_LO_UN(cos) SYM_LO_UN(tan) SYM_LO_UN(asin) SYM_LO_UN(acos) SYM_LO_UN(atan) SYM_LO_UN(sqrt) SYM_LO_UN(cbrt) SYM_LO_UN(exp) SYM_LO_UN(log)
#undef SYM_LO_UN
inline Lo atan2(const Lo& a,const Lo& b){ return lo_r(atan2(a.re(),b.re())); }
inline bool operator<(const Lo& a,const Lo& b){ return a.re()<b.re(); }
inline bool operator>(const Lo& a,const Lo& b){ return a.re()>b.re(); }
inline bool operator<=(const Lo& a,const Lo& b){ return a.re()<=b.re(); }
inline bool operator>=(const Lo& a,const Lo& b){ return a.re()>=b.re(); }
inline bool operator==(const Lo& a,const Lo& b){ return a.re()==b.re(); }
inline bool operator!=(const Lo& a,const Lo& b){ return a.re()!=b.re(); }
inline Lo abs(const Lo& a){ return Lo::exact(abs(a.re())); }
inline Lo fabs(const Lo& a){ return abs(a); }
inline Lo abs2(const Lo& a){ return a*a; }
inline Lo min(const Lo& a,const Lo& b){ return (b<a)?b:a; }
inline Lo max(const Lo& a,const Lo& b){ return (a<b)?b:a; }
inline Lo pow(const Lo& a,int n){ Lo r(1.0); for(int i=0;i<n;i++) r=r*a; return r; }
inline bool isfinite(const Lo&){ return true; }
inline bool isnan(const Lo&){ return false; }
inline bool isinf(const Lo&){ return false; }
inline Lo floor(const Lo& a){ return Lo::exact(floor(a.re())); }
inline Lo ceil(const Lo& a){ return Lo::exact(ceil(a.re())); }
inline std::ostream& operator<<(std::ostream& o,const Lo& r){ return o<<"lo"<<r.id; }
inline double value_of(const Lo& r){ return r.val(); }
} // namespace sym
namespace Eigen {
template<> struct NumTraits<sym::Lo> : GenericNumTraits<sym::Lo> {
  typedef sym::Lo Real; typedef sym::Lo NonInteger; typedef sym::Lo Nested; typedef sym::Lo Literal;
  enum { IsComplex=0, IsInteger=0, IsSigned=1, RequireInitialization=1, ReadCost=1, AddCost=3, MulCost=3 };
  static inline Real epsilon(){ return Real((double)std::numeric_limits<float>::epsilon()); }
  static inline Real dummy_precision(){ return Real(1e-5); }
  static inline int digits10(){ return 6; }
  static inline Real highest(){ return Real((double)std::numeric_limits<float>::max()); }
  static inline Real lowest(){ return Real(-(double)std::numeric_limits<float>::max()); }
};
}
