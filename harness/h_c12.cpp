// C12: generic in the scalar -- dual numbers differentiate every operation correctly; functors over raw pointers.
#include "groups.h"
#include "manif/ceres/local_parametrization.h"
#include "manif/ceres/manifold.h"
#include "manif/ceres/objective.h"
using namespace gx;
#ifndef TAG
#define TAG SO3t
#endif
#define COMMON typedef sym::Jet<S,Tg::DoF> J; typedef typename Tg::template G<S> G; typedef typename Tg::template T<S> T; typedef typename Tg::template G<J> GJ; typedef typename Tg::template T<J> TJ; typedef typename G::Jacobian Jac; enum{D=Tg::DoF,Rp=Tg::Rep};
template<class J,int N,class S> Mat<J,N,1> dzero(){ Mat<J,N,1> d; for(int i=0;i<N;i++){ d(i)=J(S(0.0)); d(i).v[i]=S(1.0);} return d; }
template<class J,class V> Mat<J,V::RowsAtCompileTime,1> lift(const V& v){ Mat<J,V::RowsAtCompileTime,1> r; for(int i=0;i<v.rows();i++) r(i)=J(v(i)); return r; }
// (a) primal parts over the dual scalar are the same computation as over the plain scalar
template<class S,class Tg> void c12_primal(hx::Rec<S>& R){ COMMON
  G X=Tg::make(R,"a",0), Y=Tg::make(R,"b",1); T t=Tg::maket(R,"t",1);
  GJ Xj(lift<J>(X.coeffs())), Yj(lift<J>(Y.coeffs())); TJ tj(lift<J>(t.coeffs()));
  #define PRIM(NAME, EJ, ES) { auto vj=EJ; auto vs=ES; for(int i=0;i<vs.coeffs().rows();i++) R.eq(std::string(NAME)+"("+std::to_string(i)+")", vj.coeffs()(i).a, vs.coeffs()(i)); }
  PRIM("compose", Xj.compose(Yj), X.compose(Y)) PRIM("inverse", Xj.inverse(), X.inverse()) PRIM("log", Xj.log(), X.log()) PRIM("exp", tj.exp(), t.exp())
  PRIM("rplus", Xj.rplus(tj), X.rplus(t)) PRIM("rminus", Xj.rminus(Yj), X.rminus(Y)) PRIM("between", Xj.between(Yj), X.between(Y))
}
// (b) d/dd [ f(X (+) d) (-) f(X) ] at d=0, everything computed by the library over dual numbers, equals the analytic Jacobian
#define DERIV(NAME, FJ, JAC) { auto fx=FJ(Xj); auto fd=FJ(Xj.rplus(dj)); auto diff=fd.rminus(fx); for(int i=0;i<D;i++)for(int k=0;k<D;k++) R.eq(std::string(NAME)+"("+std::to_string(i)+","+std::to_string(k)+")", diff.coeffs()(i).v[k], JAC(i,k)); }
template<class S,class Tg> void c12_deriv_inverse(hx::Rec<S>& R){ COMMON
  G X=Tg::make(R,"a",0); Jac Ja; X.inverse(Ja); GJ Xj(lift<J>(X.coeffs())); TJ dj(dzero<J,D,S>());
  #define F(x) (x).inverse()
  DERIV("inverse", F, Ja)
  #undef F
}
template<class S,class Tg> void c12_deriv_compose(hx::Rec<S>& R){ COMMON
  G X=Tg::make(R,"a",0), Y=Tg::makec(R,0); Jac Ja,Jb; X.compose(Y,Ja,Jb); GJ Xj(lift<J>(X.coeffs())), Yj(lift<J>(Y.coeffs())); TJ dj(dzero<J,D,S>());
  #define F(x) (x).compose(Yj)
  DERIV("compose", F, Ja)
  #undef F
}
template<class S,class Tg> void c12_deriv_log(hx::Rec<S>& R){ COMMON
  G X=Tg::make(R,"a",0); Jac Ja; T l=X.log(Ja); assume_not_half_turn<Tg>(R,X); GJ Xj(lift<J>(X.coeffs())); TJ dj(dzero<J,D,S>());
  auto fx=Xj.log(); auto fd=Xj.rplus(dj).log();
  for(int i=0;i<D;i++)for(int k=0;k<D;k++) R.eq("log("+std::to_string(i)+","+std::to_string(k)+")", (fd.coeffs()(i)-fx.coeffs()(i)).v[k], Ja(i,k));
}
// (c) functors on raw pointers (T = symbolic scalar and T = dual number)
template<class S,class Tg> void c12_functors(hx::Rec<S>& R){ COMMON
  typedef typename Tg::template G<double> Gd;
  G X=Tg::make(R,"a",0), Y=Tg::make(R,"b",1); T t=Tg::maket(R,"t",1);
  std::vector<S> sx(Rp+4), st(D+4), so(Rp+4), sm(D+4);
  for(auto* v:{&sx,&st,&so,&sm}) for(size_t i=0;i<v->size();i++) (*v)[i]=R.var("poison"+std::to_string((long)(v->size()*131+i)),900.0+i);
  std::vector<S> so0=so, sm0=sm;
  for(int i=0;i<Rp;i++) sx[2+i]=X.coeffs()(i); for(int i=0;i<D;i++) st[2+i]=t.coeffs()(i);
  manif::CeresLocalParameterizationFunctor<Gd> lp; lp(sx.data()+2, st.data()+2, so.data()+2);
  G e=X+t; for(int i=0;i<(int)so.size();i++) R.eq("localparam["+std::to_string(i)+"]", so[i], (i>=2&&i<2+Rp)? S(e.coeffs()(i-2)) : so0[i]);
  so=so0; manif::CeresManifoldFunctor<Gd> mf; mf.Plus(sx.data()+2, st.data()+2, so.data()+2);
  for(int i=0;i<(int)so.size();i++) R.eq("manifold.Plus["+std::to_string(i)+"]", so[i], (i>=2&&i<2+Rp)? S(e.coeffs()(i-2)) : so0[i]);
  std::vector<S> sy(Rp+4); for(size_t i=0;i<sy.size();i++) sy[i]=R.var("poisony"+std::to_string((long)i),700.0+i); for(int i=0;i<Rp;i++) sy[2+i]=Y.coeffs()(i);
  mf.Minus(sy.data()+2, sx.data()+2, sm.data()+2);
  T mm=Y-X; for(int i=0;i<(int)sm.size();i++) R.eq("manifold.Minus["+std::to_string(i)+"]", sm[i], (i>=2&&i<2+D)? S(mm.coeffs()(i-2)) : sm0[i]);
  // dual-number instantiation of the functor: primal equals the plain result
  std::vector<J> jx(Rp), jt(D), jo(Rp); for(int i=0;i<Rp;i++) jx[i]=J(X.coeffs()(i)); for(int i=0;i<D;i++){ jt[i]=J(t.coeffs()(i)); jt[i].v[i]=S(1.0); }
  lp(jx.data(), jt.data(), jo.data()); for(int i=0;i<Rp;i++) R.eq("localparam.dual.primal("+std::to_string(i)+")", jo[i].a, e.coeffs()(i));
}
ENTRY_T(c12_primal, TAG)
ENTRY_T(c12_deriv_inverse, TAG)
ENTRY_T(c12_deriv_compose, TAG)
ENTRY_T(c12_deriv_log, TAG)
ENTRY_T(c12_functors, TAG)
HX_MAIN
