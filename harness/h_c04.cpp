// C04: plus/minus/between are the documented compositions; aliases agree.
#include "groups.h"
#include "manif/functions.h"
using namespace gx;
#ifndef TAG
#define TAG SE3t
#endif
#define COMMON typedef typename Tg::template G<S> G; typedef typename Tg::template T<S> T; typedef typename G::Jacobian Jac; typedef Mat<S,Tg::H> MH;
template<class S,class Tg> void c04_rplus(hx::Rec<S>& R){ COMMON
  G X=Tg::make(R,"a",0); T t=Tg::maket(R,"t",1);
  hx::eqm(R,"M", Tg::template M<S>(X.rplus(t)), (Tg::template M<S>(X)*Tg::template M<S>(t.exp())).eval());
}
template<class S,class Tg> void c04_lplus(hx::Rec<S>& R){ COMMON
  G X=Tg::make(R,"a",0); T t=Tg::maket(R,"t",1);
  hx::eqm(R,"M", Tg::template M<S>(X.lplus(t)), (Tg::template M<S>(t.exp())*Tg::template M<S>(X)).eval());
}
template<class S,class Tg> void c04_between(hx::Rec<S>& R){ COMMON
  G X=Tg::make(R,"a",0), Y=Tg::make(R,"b",1);
  hx::eqm(R,"M", (Tg::template M<S>(X)*Tg::template M<S>(X.between(Y))).eval(), Tg::template M<S>(Y));
}
// X (-) Y = log(Y^-1 X): characterised by  M(Y) M(exp(X.rminus(Y))) = M(X)  with X = Y*Z, Z symbolic (so X is arbitrary)
template<class S,class Tg> void c04_rminus(hx::Rec<S>& R){ COMMON
  G Y=Tg::make(R,"b",1), Z=Tg::make(R,"z",0); G X=hcompose<Tg,S>(Y,Z);
  assume_not_half_turn<Tg>(R,Z);
  T t=X.rminus(Y);
  assume_rot_below_pi<Tg>(R,t);
  hx::eqm(R,"M", (Tg::template M<S>(Y)*Tg::template M<S>(t.exp())).eval(), Tg::template M<S>(X));
  hx::eqm(R,"logZ", t.coeffs(), Z.log().coeffs());
}
template<class S,class Tg> void c04_lminus(hx::Rec<S>& R){ COMMON
  G Y=Tg::make(R,"b",1), Z=Tg::make(R,"z",0); G X=hcompose<Tg,S>(Z,Y);
  assume_not_half_turn<Tg>(R,Z);
  T t=X.lminus(Y);
  assume_rot_below_pi<Tg>(R,t);
  hx::eqm(R,"M", (Tg::template M<S>(t.exp())*Tg::template M<S>(Y)).eval(), Tg::template M<S>(X));
  hx::eqm(R,"logZ", t.coeffs(), Z.log().coeffs());
}
// every alias returns the same result (value and Jacobians) as the canonical member
template<class S,class Tg> void c04_alias_group(hx::Rec<S>& R){ COMMON
  G X=Tg::make(R,"a",0), Y=Tg::make(R,"b",1); T t=Tg::maket(R,"t",1);
  Jac A1,A2,B1,B2;
  G rp=X.rplus(t,A1,A2);
  hx::eqm(R,"plus", X.plus(t,B1,B2).coeffs(), rp.coeffs()); hx::eqm(R,"plus.J1",B1,A1); hx::eqm(R,"plus.J2",B2,A2);
  hx::eqm(R,"op+", (X+t).coeffs(), rp.coeffs());
  { G W=X; W+=t; hx::eqm(R,"op+=", W.coeffs(), rp.coeffs()); }
  hx::eqm(R,"t.rplus(X)", t.rplus(X,B2,B1).coeffs(), rp.coeffs()); hx::eqm(R,"t.rplus.J1",B1,A1); hx::eqm(R,"t.rplus.J2",B2,A2);
  hx::eqm(R,"f.rplus", manif::rplus(X,t,B1,B2).coeffs(), rp.coeffs()); hx::eqm(R,"f.rplus.J1",B1,A1); hx::eqm(R,"f.rplus.J2",B2,A2);
  hx::eqm(R,"f.plus", manif::plus(X,t,B1,B2).coeffs(), rp.coeffs()); hx::eqm(R,"f.plus.J1",B1,A1); hx::eqm(R,"f.plus.J2",B2,A2);
  G lp=X.lplus(t,A1,A2);
  hx::eqm(R,"t+X", (t+X).coeffs(), lp.coeffs());
  hx::eqm(R,"t.plus(X)", t.plus(X,B2,B1).coeffs(), lp.coeffs()); hx::eqm(R,"t.plus.J1",B1,A1); hx::eqm(R,"t.plus.J2",B2,A2);
  hx::eqm(R,"t.lplus(X)", t.lplus(X,B2,B1).coeffs(), lp.coeffs()); hx::eqm(R,"t.lplus.J1",B1,A1); hx::eqm(R,"t.lplus.J2",B2,A2);
  hx::eqm(R,"f.lplus", manif::lplus(X,t,B1,B2).coeffs(), lp.coeffs()); hx::eqm(R,"f.lplus.J1",B1,A1); hx::eqm(R,"f.lplus.J2",B2,A2);
  G cp=X.compose(Y,A1,A2);
  hx::eqm(R,"op*", (X*Y).coeffs(), cp.coeffs());
  { G W=X; W*=Y; hx::eqm(R,"op*=", W.coeffs(), cp.coeffs()); }
  hx::eqm(R,"f.compose", manif::compose(X,Y,B1,B2).coeffs(), cp.coeffs()); hx::eqm(R,"f.compose.J1",B1,A1); hx::eqm(R,"f.compose.J2",B2,A2);
  G bt=X.between(Y,A1,A2);
  hx::eqm(R,"f.between", manif::between(X,Y,B1,B2).coeffs(), bt.coeffs()); hx::eqm(R,"f.between.J1",B1,A1); hx::eqm(R,"f.between.J2",B2,A2);
  G iv=X.inverse(A1);
  hx::eqm(R,"f.inverse", manif::inverse(X,B1).coeffs(), iv.coeffs()); hx::eqm(R,"f.inverse.J",B1,A1);
}
template<class S,class Tg> void c04_alias_minus(hx::Rec<S>& R){ COMMON
  G X=Tg::make(R,"a",0), Y=Tg::make(R,"b",1);
  Jac A1,A2,B1,B2;
  T rm=X.rminus(Y,A1,A2);
  hx::eqm(R,"minus", X.minus(Y,B1,B2).coeffs(), rm.coeffs()); hx::eqm(R,"minus.J1",B1,A1); hx::eqm(R,"minus.J2",B2,A2);
  hx::eqm(R,"op-", (X-Y).coeffs(), rm.coeffs());
  hx::eqm(R,"f.rminus", manif::rminus(X,Y,B1,B2).coeffs(), rm.coeffs()); hx::eqm(R,"f.rminus.J1",B1,A1); hx::eqm(R,"f.rminus.J2",B2,A2);
  hx::eqm(R,"f.minus", manif::minus(X,Y,B1,B2).coeffs(), rm.coeffs()); hx::eqm(R,"f.minus.J1",B1,A1); hx::eqm(R,"f.minus.J2",B2,A2);
}
template<class S,class Tg> void c04_alias_lminus(hx::Rec<S>& R){ COMMON
  G X=Tg::make(R,"a",0), Y=Tg::make(R,"b",1);
  Jac A1,A2,B1,B2;
  T lm=X.lminus(Y,A1,A2);
  hx::eqm(R,"f.lminus", manif::lminus(X,Y,B1,B2).coeffs(), lm.coeffs()); hx::eqm(R,"f.lminus.J1",B1,A1); hx::eqm(R,"f.lminus.J2",B2,A2);
}
template<class S,class Tg> void c04_alias_log(hx::Rec<S>& R){ COMMON
  G X=Tg::make(R,"a",0);
  Jac A1,B1;
  T lg=X.log(A1);
  hx::eqm(R,"lift", X.lift(B1).coeffs(), lg.coeffs()); hx::eqm(R,"lift.J",B1,A1);
  hx::eqm(R,"f.log", manif::log(X,B1).coeffs(), lg.coeffs()); hx::eqm(R,"f.log.J",B1,A1);
}
template<class S,class Tg> void c04_alias_tangent(hx::Rec<S>& R){ COMMON
  T t=Tg::maket(R,"t",0); Jac A1,B1;
  G e=t.exp(A1);
  hx::eqm(R,"f.exp", manif::exp(t,B1).coeffs(), e.coeffs()); hx::eqm(R,"f.exp.J",B1,A1);
}
ENTRY_T(c04_rplus, TAG)
ENTRY_T(c04_lplus, TAG)
ENTRY_T(c04_between, TAG)
ENTRY_T(c04_rminus, TAG)
ENTRY_T(c04_lminus, TAG)
ENTRY_T(c04_alias_group, TAG)
ENTRY_T(c04_alias_minus, TAG)
ENTRY_T(c04_alias_lminus, TAG)
ENTRY_T(c04_alias_log, TAG)
ENTRY_T(c04_alias_tangent, TAG)
HX_MAIN
