// Forward-mode dual number over an arbitrary base scalar B (sym::Real for the
// symbolic run, double for replay). Same rules as ceres::Jet / autodiff::dual.
#pragma once
#include <array>
#include <cmath>
#include <limits>
#include <iostream>
#include <Eigen/Core>
namespace sym {
template<class B, int N> struct Jet {
  B a; std::array<B,N> v;
  Jet(): a(0.0) { for(auto&x:v) x=B(0.0); }
  Jet(const B& r): a(r) { for(auto&x:v) x=B(0.0); }
  template<class T, class = typename std::enable_if<std::is_arithmetic<T>::value && !std::is_same<T,B>::value>::type>
  Jet(T d): a((double)d) { for(auto&x:v) x=B(0.0); }
  Jet(const B& r, int k): a(r) { for(auto&x:v) x=B(0.0); v[k]=B(1.0); }
  Jet& operator+=(const Jet& o){ *this=*this+o; return *this; }
  Jet& operator-=(const Jet& o){ *this=*this-o; return *this; }
  Jet& operator*=(const Jet& o){ *this=*this*o; return *this; }
  Jet& operator/=(const Jet& o){ *this=*this/o; return *this; }
};
#define JT template<class B,int N> inline Jet<B,N>
JT operator+(const Jet<B,N>&x,const Jet<B,N>&y){ Jet<B,N> r; r.a=x.a+y.a; for(int i=0;i<N;i++) r.v[i]=x.v[i]+y.v[i]; return r; }
JT operator-(const Jet<B,N>&x,const Jet<B,N>&y){ Jet<B,N> r; r.a=x.a-y.a; for(int i=0;i<N;i++) r.v[i]=x.v[i]-y.v[i]; return r; }
JT operator-(const Jet<B,N>&x){ Jet<B,N> r; r.a=-x.a; for(int i=0;i<N;i++) r.v[i]=-x.v[i]; return r; }
JT operator+(const Jet<B,N>&x){ return x; }
JT operator*(const Jet<B,N>&x,const Jet<B,N>&y){ Jet<B,N> r; r.a=x.a*y.a; for(int i=0;i<N;i++) r.v[i]=x.a*y.v[i]+x.v[i]*y.a; return r; }
JT operator/(const Jet<B,N>&x,const Jet<B,N>&y){ Jet<B,N> r; r.a=x.a/y.a; for(int i=0;i<N;i++) r.v[i]=(x.v[i]-r.a*y.v[i])/y.a; return r; }
#define JMIX(op) \
  template<class B,int N> inline Jet<B,N> operator op(const Jet<B,N>&x,const B&y){ return x op Jet<B,N>(y); } \
  template<class B,int N> inline Jet<B,N> operator op(const B&x,const Jet<B,N>&y){ return Jet<B,N>(x) op y; } \
  template<class B,int N,class T,class=typename std::enable_if<std::is_arithmetic<T>::value && !std::is_same<T,B>::value>::type> inline Jet<B,N> operator op(const Jet<B,N>&x,T y){ return x op Jet<B,N>(B((double)y)); } \
  template<class B,int N,class T,class=typename std::enable_if<std::is_arithmetic<T>::value && !std::is_same<T,B>::value>::type> inline Jet<B,N> operator op(T x,const Jet<B,N>&y){ return Jet<B,N>(B((double)x)) op y; }
JMIX(+) JMIX(-) JMIX(*) JMIX(/)
template<class B,int N> inline Jet<B,N> chain(const Jet<B,N>&x, const B& f, const B& df){ Jet<B,N> r; r.a=f; for(int i=0;i<N;i++) r.v[i]=df*x.v[i]; return r; }
JT sin(const Jet<B,N>&x){ using std::sin; using std::cos; return chain<B,N>(x, sin(x.a), cos(x.a)); }
JT cos(const Jet<B,N>&x){ using std::sin; using std::cos; return chain<B,N>(x, cos(x.a), -sin(x.a)); }
JT tan(const Jet<B,N>&x){ using std::tan; B t=tan(x.a); return chain<B,N>(x, t, B(1.0)+t*t); }
JT sqrt(const Jet<B,N>&x){ using std::sqrt; B s=sqrt(x.a); return chain<B,N>(x, s, B(1.0)/(B(2.0)*s)); }
JT atan2(const Jet<B,N>&y,const Jet<B,N>&x){ using std::atan2; Jet<B,N> r; r.a=atan2(y.a,x.a); B d=x.a*x.a+y.a*y.a; for(int i=0;i<N;i++) r.v[i]=(x.a*y.v[i]-y.a*x.v[i])/d; return r; }
JT atan(const Jet<B,N>&x){ using std::atan; return chain<B,N>(x, atan(x.a), B(1.0)/(B(1.0)+x.a*x.a)); }
JT acos(const Jet<B,N>&x){ using std::acos; using std::sqrt; return chain<B,N>(x, acos(x.a), -(B(1.0)/sqrt(B(1.0)-x.a*x.a))); }
JT asin(const Jet<B,N>&x){ using std::asin; using std::sqrt; return chain<B,N>(x, asin(x.a), B(1.0)/sqrt(B(1.0)-x.a*x.a)); }
JT exp(const Jet<B,N>&x){ using std::exp; B e=exp(x.a); return chain<B,N>(x, e, e); }
JT log(const Jet<B,N>&x){ using std::log; return chain<B,N>(x, log(x.a), B(1.0)/x.a); }
JT abs(const Jet<B,N>&x){ return (x.a<B(0.0))? -x : x; }
JT fabs(const Jet<B,N>&x){ return abs(x); }
JT abs2(const Jet<B,N>&x){ return x*x; }
JT pow(const Jet<B,N>&x,int n){ Jet<B,N> r(B(1.0)); for(int i=0;i<n;i++) r=r*x; return r; }
JT min(const Jet<B,N>&x,const Jet<B,N>&y){ return (y.a<x.a)?y:x; }
JT max(const Jet<B,N>&x,const Jet<B,N>&y){ return (x.a<y.a)?y:x; }
#define JC(op) template<class B,int N> inline bool operator op(const Jet<B,N>&x,const Jet<B,N>&y){ return x.a op y.a; } \
  template<class B,int N> inline bool operator op(const Jet<B,N>&x,const B&y){ return x.a op y; } \
  template<class B,int N> inline bool operator op(const B&x,const Jet<B,N>&y){ return x op y.a; }
JC(<) JC(>) JC(<=) JC(>=) JC(==) JC(!=)
template<class B,int N> inline bool isfinite(const Jet<B,N>&){ return true; }
template<class B,int N> inline bool isnan(const Jet<B,N>&){ return false; }
template<class B,int N> inline bool isinf(const Jet<B,N>&){ return false; }
template<class B,int N> inline std::ostream& operator<<(std::ostream&o,const Jet<B,N>&x){ return o<<x.a; }
}
namespace Eigen {
template<class B,int N> struct NumTraits<sym::Jet<B,N>> : GenericNumTraits<sym::Jet<B,N>> {
  typedef sym::Jet<B,N> Real; typedef sym::Jet<B,N> NonInteger; typedef sym::Jet<B,N> Nested; typedef sym::Jet<B,N> Literal;
  enum { IsComplex=0, IsInteger=0, IsSigned=1, RequireInitialization=1, ReadCost=1, AddCost=3, MulCost=3 };
  static inline Real epsilon(){ return Real(B(std::numeric_limits<double>::epsilon())); }
  static inline Real dummy_precision(){ return Real(B(1e-12)); }
  static inline Real highest(){ return Real(B(std::numeric_limits<double>::max())); }
  static inline Real lowest(){ return Real(B(-std::numeric_limits<double>::max())); }
  static inline int digits10(){ return 15; }
};
template<class B,int N,class BinOp> struct ScalarBinaryOpTraits<sym::Jet<B,N>,B,BinOp>{ typedef sym::Jet<B,N> ReturnType; };
template<class B,int N,class BinOp> struct ScalarBinaryOpTraits<B,sym::Jet<B,N>,BinOp>{ typedef sym::Jet<B,N> ReturnType; };
}
