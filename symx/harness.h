// Harness support: manif customisation points for the symbolic scalar, the
// obligation recorder, path enumeration driver and DAG dump.
// A harness TU is compiled with -DHSCALAR_SYM (symbolic run), or -DHSCALAR_DOUBLE
// / -DHSCALAR_FLOAT (the very same entries executed concretely: replay binary and
// translator validation).
#pragma once
#include "sym.h"
#include "jet.h"
#include <fstream>
#include <iomanip>
#include <functional>
#include <set>
#include <regex>
#include "manif/constants.h"
namespace manif {
template<> struct Constants<sym::Real> { static const sym::Real eps; static const sym::Real eps_sqrt; static const sym::Real to_rad; static const sym::Real to_deg; };
#ifdef SYM_FLOAT_PROFILE
const sym::Real Constants<sym::Real>::eps = sym::Real((double)Constants<float>::eps);
#else
const sym::Real Constants<sym::Real>::eps = sym::Real(Constants<double>::eps);
#endif
#ifdef SYM_FLOAT_PROFILE
const sym::Real Constants<sym::Real>::eps_sqrt = sym::Real((double)Constants<float>::eps_sqrt);
#else
const sym::Real Constants<sym::Real>::eps_sqrt = sym::Real(Constants<double>::eps_sqrt);
#endif
const sym::Real Constants<sym::Real>::to_rad = sym::Real(Constants<double>::to_rad);
const sym::Real Constants<sym::Real>::to_deg = sym::Real(Constants<double>::to_deg);
template<class B,int N> struct Constants<sym::Jet<B,N>> { static const sym::Jet<B,N> eps; static const sym::Jet<B,N> eps_sqrt; };
template<class B,int N> const sym::Jet<B,N> Constants<sym::Jet<B,N>>::eps_sqrt = sym::Jet<B,N>(B(Constants<B>::eps_sqrt));
template<class B,int N> const sym::Jet<B,N> Constants<sym::Jet<B,N>>::eps = sym::Jet<B,N>(B(Constants<B>::eps));
}
#include "manif/impl/traits.h"
namespace manif { namespace internal {
template<> struct is_ad<sym::Real> : std::true_type {};
template<class B,int N> struct is_ad<sym::Jet<B,N>> : std::true_type {};
} }
#include "manif/manif.h"

#if defined(HSCALAR_SYM)
typedef sym::Real HS;
#define HSYM 1
#elif defined(HSCALAR_FLOAT)
typedef float HS;
#define HSYM 0
#else
typedef double HS;
#define HSYM 0
#endif

namespace hx {
inline std::string hexd(double v){ char b[64]; snprintf(b,sizeof b,"%a",v); return b; }

struct Item { char kind; std::string name; int l, r; double lv, rv; std::string text; };
// kinds: 'E' eq claim, 'L' l<=r claim, 'T' l<r claim, 'O' output, 'H' hypothesis (text=kind, ids in name), 'A' assumed comparison, 'N' note

template<class S> struct Rec;

template<> struct Rec<sym::Real> {
  typedef sym::Real S;
  std::string entry; std::vector<Item> items;
  std::map<std::string,double>* input = nullptr; bool inv_mode=false;
  S var(const std::string& n, double w){ return S::var(entry+":"+n, w); }
  S rat(long p, long q){ return q==1 ? S((double)p) : S((double)p)/S((double)q); }
  void eq(const std::string& n, const S& l, const S& r){ items.push_back(Item{'E',n,l.id,r.id,l.val(),r.val(),""}); }
  void approx(const std::string& n, const S& l, const S& r, const std::string& cls){ items.push_back(Item{'P',n,l.id,r.id,l.val(),r.val(),cls}); }
  void force_generic(bool on){ sym::ctx().force_eps = on?1:0; }
  void le(const std::string& n, const S& l, const S& r){ items.push_back(Item{'L',n,l.id,r.id,l.val(),r.val(),""}); }
  void lt(const std::string& n, const S& l, const S& r){ items.push_back(Item{'T',n,l.id,r.id,l.val(),r.val(),""}); }
  void out(const std::string& n, const S& v){ items.push_back(Item{'O',n,v.id,-1,v.val(),0,""}); }
  void note(const std::string& k, const std::string& t){ items.push_back(Item{'N',k,-1,-1,0,0,t}); }
  void hyp(const std::string& kind, std::initializer_list<S> vs){ std::string ids; for(auto&v:vs) ids+=" "+std::to_string(v.id); items.push_back(Item{'H',kind,-1,-1,0,0,ids}); }
  // assumed comparison: cmp 0 '<', 1 '<=', 2 '='
  void assume(const S& a, int cmp, const S& b){ items.push_back(Item{'A',"",a.id,b.id,0,0,std::to_string(cmp)}); }
  static double value(const S& s){ return s.val(); }
};
template<class F> struct RecC {
  typedef F S;
  std::string entry; std::vector<Item> items;
  std::map<std::string,double>* input = nullptr; bool inv_mode=false;
  S var(const std::string& n, double w){ if (input){ auto it=input->find(entry+":"+n); if(it!=input->end()) return (F)it->second; } return (F)w; }
  S rat(long p, long q){ return (F)((double)p/(double)q); }
  void eq(const std::string& n, const S& l, const S& r){ items.push_back(Item{'E',n,-1,-1,(double)l,(double)r,""}); }
  void approx(const std::string& n, const S& l, const S& r, const std::string& cls){ items.push_back(Item{'P',n,-1,-1,(double)l,(double)r,cls}); }
  void force_generic(bool){}
  void le(const std::string& n, const S& l, const S& r){ items.push_back(Item{'L',n,-1,-1,(double)l,(double)r,""}); }
  void lt(const std::string& n, const S& l, const S& r){ items.push_back(Item{'T',n,-1,-1,(double)l,(double)r,""}); }
  void out(const std::string& n, const S& v){ items.push_back(Item{'O',n,-1,-1,(double)v,0,""}); }
  void note(const std::string& k, const std::string& t){ items.push_back(Item{'N',k,-1,-1,0,0,t}); }
  void hyp(const std::string&, std::initializer_list<S>){}
  void assume(const S&, int, const S&){}
  static double value(const S& s){ return (double)s; }
};
template<> struct Rec<double> : RecC<double> {};
template<> struct Rec<float> : RecC<float> {};

// matrix helpers
template<class R,class M1,class M2> void eqm(R& rec, const std::string& n, const M1& a, const M2& b){
  if (a.rows()!=b.rows() || a.cols()!=b.cols()) throw std::logic_error("eqm: shape mismatch "+n);
  for(int i=0;i<a.rows();i++) for(int j=0;j<a.cols();j++) rec.eq(n+"("+std::to_string(i)+","+std::to_string(j)+")", a(i,j), b(i,j));
}
template<class R,class M1> void outm(R& rec, const std::string& n, const M1& a){
  for(int i=0;i<a.rows();i++) for(int j=0;j<a.cols();j++) rec.out(n+"("+std::to_string(i)+","+std::to_string(j)+")", a(i,j));
}

typedef std::function<void(Rec<HS>&)> EntryFn;
struct Registry { std::vector<std::pair<std::string,EntryFn>> entries; static Registry& get(){ static Registry r; return r; } };
struct Reg { Reg(const std::string& n, EntryFn f){ Registry::get().entries.push_back({n,f}); } };

inline void cone(const std::vector<sym::Node>& nodes, int root, std::set<int>& seen){
  std::vector<int> st{root};
  while(!st.empty()){ int i=st.back(); st.pop_back(); if(i<0||seen.count(i)) continue; seen.insert(i); st.push_back(nodes[i].a); if (nodes[i].op!=sym::ROUND) st.push_back(nodes[i].b); }
}

inline int run_main(int argc, char** argv){
  if (argc<2){ std::cerr<<"usage: harness out.dag [entry-regex] [--input file] [--list] [--maxpaths N]\n"; return 2; }
  std::string outfn=argv[1]; std::string filt=".*"; std::string inputfn; int maxpaths=64; bool list=false;
  for(int i=2;i<argc;i++){ std::string a=argv[i]; if(a=="--input") inputfn=argv[++i]; else if(a=="--maxpaths") maxpaths=atoi(argv[++i]); else if(a=="--list") list=true; else filt=a; }
  std::regex re(filt);
  std::map<std::string,double> input;
  if(!inputfn.empty()){ std::ifstream f(inputfn); std::string k,v; while(f>>k>>v) input[k]=strtod(v.c_str(),nullptr); }
  std::ofstream f(outfn);
  for(auto& e: Registry::get().entries){
    if(list){ f<<e.first<<"\n"; continue; }
    if(!std::regex_match(e.first,re)) continue;
    f<<"ENTRY "<<e.first<<"\n";
#if HSYM
    auto& C=sym::ctx(); C.eps_value=manif::Constants<sym::Real>::eps.val(); C.eps_sqrt_value=manif::Constants<sym::Real>::eps_sqrt.val(); C.force_eps=0;
    struct St{ bool taken, flipped; }; std::vector<St> stack;
    struct PathRec{ std::string outcome, msg; std::vector<sym::Decision> pc; std::vector<Item> items; };
    std::vector<PathRec> paths; bool truncated=false;
    while(true){
      std::vector<bool> pre; for(auto&s:stack) pre.push_back(s.taken);
      C.reset_path(pre);
      Rec<HS> rec; rec.entry=e.first; PathRec pr; pr.outcome="ret"; C.force_eps=0;
      try{ e.second(rec); }
      catch(sym::PathLimit&){ pr.outcome="limit"; }
      catch(manif::invalid_argument& ex){ pr.outcome="raise:manif::invalid_argument"; pr.msg=ex.what(); }
      catch(manif::runtime_error& ex){ pr.outcome="raise:manif::runtime_error"; pr.msg=ex.what(); }
      catch(std::invalid_argument& ex){ pr.outcome="raise:std::invalid_argument"; pr.msg=ex.what(); }
      catch(std::exception& ex){ pr.outcome="raise:std::exception"; pr.msg=ex.what(); }
      { // every rounding variable introduced on this path (narrow scalar sym::Lo, static_cast<float> inside the library) is bounded by the unit roundoff
        std::set<int> seenr; sym::Real u(sym::lo_unit_roundoff());
        for(int id: sym::rnd_log()) if(seenr.insert(id).second){ sym::Real d=sym::Real::from(id); rec.assume(-u,1,d); rec.assume(d,1,u); } }
      pr.pc=C.pc; pr.items=rec.items; paths.push_back(pr);
      if(stack.size()>C.pc.size()) stack.resize(C.pc.size());
      for(size_t i=stack.size();i<C.pc.size();i++) stack.push_back(St{C.pc[i].taken,false});
      while(!stack.empty() && stack.back().flipped) stack.pop_back();
      if(stack.empty()) break;
      stack.back().taken=!stack.back().taken; stack.back().flipped=true;
      if((int)paths.size()>=maxpaths){ truncated=true; break; }
    }
    std::set<int> need;
    for(auto&p:paths){ for(auto&d:p.pc){ cone(C.nodes,d.a,need); cone(C.nodes,d.b,need);} for(auto&it:p.items){ if(it.l>=0) cone(C.nodes,it.l,need); if(it.r>=0) cone(C.nodes,it.r,need); if(it.kind=='H'){ std::istringstream ss(it.text); int id; while(ss>>id) cone(C.nodes,id,need);} } }
    for(int i: need){ auto&n=C.nodes[i]; std::string nm=n.name; size_t c=nm.find(':'); if(c!=std::string::npos) nm=nm.substr(c+1); f<<"N "<<i<<" "<<sym::opname(n.op)<<" "<<n.a<<" "<<n.b<<" "<<hexd(n.c)<<" "<<(nm.empty()?"-":nm)<<" "<<hexd(n.val)<<"\n"; }
    if(truncated) f<<"TRUNCATED "<<maxpaths<<"\n";
    int k=0;
    for(auto&p:paths){
      f<<"PATH "<<k++<<" "<<p.outcome<<" "<<p.msg<<"\n";
      for(auto&d:p.pc) f<<"D "<<d.a<<" "<<d.cmp<<" "<<d.b<<" "<<(d.taken?1:0)<<"\n";
      for(auto&it:p.items){
        if(it.kind=='H') f<<"H "<<it.name<<it.text<<"\n";
        else if(it.kind=='A') f<<"A "<<it.l<<" "<<it.text<<" "<<it.r<<"\n";
        else if(it.kind=='N') f<<"NOTE "<<it.name<<" "<<it.text<<"\n";
        else if(it.kind=='O') f<<"OUT "<<it.name<<" "<<it.l<<"\n";
        else if(it.kind=='P') f<<"AP "<<it.name<<" "<<it.l<<" "<<it.r<<" "<<it.text<<"\n";
        else f<<(it.kind=='E'?"EQ ":it.kind=='L'?"LE ":"LT ")<<it.name<<" "<<it.l<<" "<<it.r<<"\n";
      }
      f<<"ENDPATH\n";
    }
#else
    Rec<HS> rec; rec.entry=e.first; rec.input=&input; std::string outcome="ret", msg;
    try{ e.second(rec); }
    catch(manif::invalid_argument& ex){ outcome="raise:manif::invalid_argument"; msg=ex.what(); }
    catch(manif::runtime_error& ex){ outcome="raise:manif::runtime_error"; msg=ex.what(); }
    catch(std::invalid_argument& ex){ outcome="raise:std::invalid_argument"; msg=ex.what(); }
    catch(std::exception& ex){ outcome="raise:std::exception"; msg=ex.what(); }
    f<<"PATH 0 "<<outcome<<" "<<msg<<"\n";
    for(auto&it:rec.items){
      if(it.kind=='N') f<<"NOTE "<<it.name<<" "<<it.text<<"\n";
      else if(it.kind=='O') f<<"OUT "<<it.name<<" "<<hexd(it.lv)<<"\n";
      else if(it.kind=='P') f<<"AP "<<it.name<<" "<<hexd(it.lv)<<" "<<hexd(it.rv)<<" "<<it.text<<"\n";
      else if(it.kind=='E'||it.kind=='L'||it.kind=='T') f<<(it.kind=='E'?"EQ ":it.kind=='L'?"LE ":"LT ")<<it.name<<" "<<hexd(it.lv)<<" "<<hexd(it.rv)<<"\n";
    }
    f<<"ENDPATH\n";
#endif
    f<<"ENDENTRY\n";
  }
  return 0;
}
} // namespace hx

#define HX_CAT2(a,b) a##b
#define HX_CAT(a,b) HX_CAT2(a,b)
// ENTRY(name) { body using R }  -- R is hx::Rec<S>&, S the scalar
#define ENTRY(name) template<class S> void name(hx::Rec<S>& R); static hx::Reg HX_CAT(reg_,name)(#name, [](hx::Rec<HS>& r){ name<HS>(r); }); template<class S> void name(hx::Rec<S>& R)
// register an instantiation of a generic entry template<class S, class Tag> void f(hx::Rec<S>&)
#define HX_STR2(x) #x
#define HX_STR(x) HX_STR2(x)
#define ENTRY_T(fn, tag) static hx::Reg HX_CAT(HX_CAT(reg_,fn),HX_CAT(_,__LINE__))(std::string(#fn ".")+tag::nm(), [](hx::Rec<HS>& r){ fn<HS,tag>(r); });
#define HX_MAIN int main(int argc,char**argv){ return hx::run_main(argc,argv); }
