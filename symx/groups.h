// Group tags: for each manif group, how to make a symbolic valid element /
// tangent, and the *documented* homogeneous matrix / hat matrix written out
// independently of the library (the oracle side of C01/C02/C07/C13).
#pragma once
#include "harness.h"
namespace gx {
using hx::Rec;
template<class S,int R,int C=R> using Mat = Eigen::Matrix<S,R,C>;

// witness tables (w selects a row). Rotation parts are (approximately) unit.
static const double WQ[4][4] = { {0.1,0.2,0.3,0.9273618495495704}, {0.5,-0.5,0.5,0.5}, {-0.3,0.4,0.1,-0.8602325267042626}, {0.6,0.0,-0.64,0.48} };
static const double WC[4][2] = { {0.8,0.6}, {-0.28,0.96}, {0.6,-0.8}, {-0.96,-0.28} };
static const double WV[4][3] = { {1.0,2.0,3.0}, {-1.0,0.5,2.0}, {0.25,-4.0,1.5}, {3.0,-2.0,-0.5} };
static const double WW[4][3] = { {0.3,-0.4,0.5}, {-0.2,0.1,0.7}, {1.1,0.3,-0.6}, {0.05,0.02,-0.03} };

template<class R> Mat<typename R::S,3,1> vec3(R& rec, const std::string& p, const double* w){
  Mat<typename R::S,3,1> v; v<<rec.var(p+"x",w[0]),rec.var(p+"y",w[1]),rec.var(p+"z",w[2]); return v; }
template<class R> Mat<typename R::S,4,1> unitq(R& rec, const std::string& p, int w){
  typedef typename R::S S; Mat<S,4,1> q; q<<rec.var(p+"qx",WQ[w][0]),rec.var(p+"qy",WQ[w][1]),rec.var(p+"qz",WQ[w][2]),rec.var(p+"qw",WQ[w][3]);
  if(rec.inv_mode){ S n=q.squaredNorm(); S e(manif::Constants<S>::eps); rec.assume(S(1.0)-e,1,n); rec.assume(n,1,S(1.0)+e); rec.hyp("nearunitq",{q(0),q(1),q(2),q(3)}); }
  else rec.hyp("unitq",{q(0),q(1),q(2),q(3)}); return q; }
template<class R> Mat<typename R::S,2,1> unitc(R& rec, const std::string& p, int w){
  typedef typename R::S S; Mat<S,2,1> c; c<<rec.var(p+"re",WC[w][0]),rec.var(p+"im",WC[w][1]); if(rec.inv_mode){ S n=c.squaredNorm(); S e(manif::Constants<S>::eps); rec.assume(S(1.0)-e,1,n); rec.assume(n,1,S(1.0)+e); rec.hyp("nearunitc",{c(0),c(1)}); } else rec.hyp("unitc",{c(0),c(1)}); return c; }
// documented rotation matrix of a unit quaternion (x,y,z,w)
template<class S> Mat<S,3,3> Rq(const Mat<S,4,1>& q){
  S x=q(0),y=q(1),z=q(2),w=q(3); Mat<S,3,3> R; S two(2.0), one(1.0);
  R<< one-two*(y*y+z*z), two*(x*y-z*w), two*(x*z+y*w),
      two*(x*y+z*w), one-two*(x*x+z*z), two*(y*z-x*w),
      two*(x*z-y*w), two*(y*z+x*w), one-two*(x*x+y*y);
  return R; }
template<class S> Mat<S,3,3> skew3(const Mat<S,3,1>& v){ Mat<S,3,3> m; S z(0.0); m<<z,-v(2),v(1), v(2),z,-v(0), -v(1),v(0),z; return m; }

// Hamilton product of quaternions stored (x,y,z,w)
template<class S> Mat<S,4,1> qmul(const Mat<S,4,1>& a, const Mat<S,4,1>& b){
  Mat<S,4,1> r;
  r(0)=a(3)*b(0)+a(0)*b(3)+a(1)*b(2)-a(2)*b(1);
  r(1)=a(3)*b(1)-a(0)*b(2)+a(1)*b(3)+a(2)*b(0);
  r(2)=a(3)*b(2)+a(0)*b(1)-a(1)*b(0)+a(2)*b(3);
  r(3)=a(3)*b(3)-a(0)*b(0)-a(1)*b(1)-a(2)*b(2);
  return r; }
// first-order right perturbation q (x) (w/2, 1) of a unit quaternion by a rotation vector w (exact to first order)
template<class J> Mat<J,4,1> qpert(const Mat<J,4,1>& q, const Mat<J,3,1>& w){ Mat<J,4,1> dq; dq<<w(0)*J(0.5),w(1)*J(0.5),w(2)*J(0.5),J(1.0); return qmul<J>(q,dq); }
template<class J,class V> Mat<J,V::RowsAtCompileTime,1> liftv(const V& v){ Mat<J,V::RowsAtCompileTime,1> r; for(int i=0;i<v.rows();i++) r(i)=J(v(i)); return r; }
// Generic first-order element X (+) d, built from the documented matrix group structure only:
// M(X (+) d) = M(X) (I + hat(d)) + O(d^2); the rotation coefficients are perturbed by the quaternion / complex rule.
template<class Tg,class J,class GS,class TD> typename Tg::template G<J> perturb(const GS& X, const TD& d){
  typedef typename Tg::template G<J> GJ; typedef typename Tg::template T<J> TJ;
  typename GJ::DataType c = liftv<J>(X.coeffs());
  GJ Xl(c); TJ dj(d);
  Mat<J,Tg::H> Mp = Tg::template M<J>(Xl) * (Mat<J,Tg::H>::Identity() + Tg::template hat<J>(dj));
  return Tg::template fromM<J>(Xl, dj, Mp);
}
// concrete exact rational points (concretised arguments; every rotation part is exactly unit)
static const long KQ[4][5] = { {1,2,2,4,5}, {2,-4,5,-6,9}, {-2,3,6,0,7}, {4,-4,1,-4,7} };   // (x,y,z,w)/den
static const long KC[4][3] = { {3,4,5}, {-5,12,13}, {8,-15,17}, {-7,-24,25} };             // (re,im)/den
static const long KV[4][3] = { {1,-3,5}, {-7,2,3}, {9,4,-1}, {-2,-5,6} };                    // /4
static const long KW[4][3] = { {3,-4,5}, {-2,1,7}, {11,3,-6}, {1,2,-3} };                    // /10
template<class R> Mat<typename R::S,4,1> cq(R& rec,int k){ Mat<typename R::S,4,1> q; for(int i=0;i<4;i++) q(i)=rec.rat(KQ[k][i],KQ[k][4]); return q; }
template<class R> Mat<typename R::S,2,1> cc(R& rec,int k){ Mat<typename R::S,2,1> c; for(int i=0;i<2;i++) c(i)=rec.rat(KC[k][i],KC[k][2]); return c; }
template<class R> Mat<typename R::S,3,1> cv(R& rec,int k){ Mat<typename R::S,3,1> v; for(int i=0;i<3;i++) v(i)=rec.rat(KV[k][i],4); return v; }
template<class R> Mat<typename R::S,3,1> cw(R& rec,int k){ Mat<typename R::S,3,1> v; for(int i=0;i<3;i++) v(i)=rec.rat(KW[k][i],10); return v; }
struct SO2t { template<class S> using G=manif::SO2<S>; template<class S> using T=manif::SO2Tangent<S>; template<class R> static G<typename R::S> makec(R& rec,int k){ typedef typename R::S S; auto c=cc(rec,k); return G<S>(c(0),c(1)); }
  template<class R> static T<typename R::S> maket0(R& rec,const std::string& p,int w){ typedef typename R::S S; return T<S>(S(0.0)); }
  template<class R> static T<typename R::S> maketc(R& rec,int k){ typedef typename R::S S; return T<S>(rec.rat(KW[k][0],10)); }
  template<class S,class GA,class GB,class MM> static G<S> assemble(const GA& A,const GB& B,const MM& Mp){ S re=A.coeffs()(0)*B.coeffs()(0)-A.coeffs()(1)*B.coeffs()(1), im=A.coeffs()(0)*B.coeffs()(1)+A.coeffs()(1)*B.coeffs()(0); return G<S>(re,im); }
  template<class J,class GJ,class TJ,class MM> static GJ fromM(const GJ& X,const TJ& d,const MM& Mp){ J re=X.coeffs()(0)-X.coeffs()(1)*d.coeffs()(0), im=X.coeffs()(1)+X.coeffs()(0)*d.coeffs()(0); return GJ(re,im); }
  template<class S,class XX> static S erotsq(const XX& X){ return X.coeffs()(1)*X.coeffs()(1); } template<class S,class XX> static S ew(const XX& X){ return X.coeffs()(0); }
  template<class S,class X> static S rotsq(const X& t){ return t.coeffs()(0)*t.coeffs()(0); } enum{A=2}; template<class S,class X> static Mat<S,A> alg(const X& t){ Mat<S,A> m=hat<S>(t).template topLeftCorner<A,A>(); return m; } static const char* nm(){return "SO2";} enum{H=3,P=2,DoF=1,Rep=2};
  
  template<class R> static G<typename R::S> make(R& rec,const std::string& p,int w){ auto c=unitc(rec,p,w); return G<typename R::S>(c(0),c(1)); }
  template<class R> static T<typename R::S> maket(R& rec,const std::string& p,int w){ return T<typename R::S>(rec.var(p+"th",WW[w][0])); }
  template<class S,class X> static Mat<S,H> M(const X& g){ S z(0.0),o(1.0); Mat<S,H> m; m<<g.coeffs()(0),-g.coeffs()(1),z, g.coeffs()(1),g.coeffs()(0),z, z,z,o; return m; }
  template<class S,class X> static Mat<S,H> hat(const X& t){ S z(0.0); Mat<S,H> m; m<<z,-t.coeffs()(0),z, t.coeffs()(0),z,z, z,z,z; return m; }
  template<class S> static Mat<S,H,1> hom(const Mat<S,P,1>& p){ Mat<S,H,1> h; h<<p(0),p(1),S(1.0); return h; }
  static int nrot(){return 1;} // rotation-part kind: 1 complex, 2 quaternion, 0 none
};
struct SE2t { template<class S> using G=manif::SE2<S>; template<class S> using T=manif::SE2Tangent<S>; template<class R> static G<typename R::S> makec(R& rec,int k){ typedef typename R::S S; auto c=cc(rec,k); auto v=cv(rec,k); return G<S>(v(0),v(1),c(0),c(1)); }
  template<class R> static T<typename R::S> maket0(R& rec,const std::string& p,int w){ typedef typename R::S S; return T<S>(rec.var(p+"x",WV[w][0]),rec.var(p+"y",WV[w][1]),S(0.0)); }
  template<class R> static T<typename R::S> maketc(R& rec,int k){ typedef typename R::S S; auto v=cv(rec,k); return T<S>(v(0),v(1),rec.rat(KW[k][0],10)); }
  template<class S,class GA,class GB,class MM> static G<S> assemble(const GA& A,const GB& B,const MM& Mp){ S re=A.coeffs()(2)*B.coeffs()(2)-A.coeffs()(3)*B.coeffs()(3), im=A.coeffs()(2)*B.coeffs()(3)+A.coeffs()(3)*B.coeffs()(2); return G<S>(Mp(0,2),Mp(1,2),re,im); }
  template<class J,class GJ,class TJ,class MM> static GJ fromM(const GJ& X,const TJ& d,const MM& Mp){ J re=X.coeffs()(2)-X.coeffs()(3)*d.coeffs()(2), im=X.coeffs()(3)+X.coeffs()(2)*d.coeffs()(2); return GJ(Mp(0,2),Mp(1,2),re,im); }
  template<class S,class XX> static S erotsq(const XX& X){ return X.coeffs()(3)*X.coeffs()(3); } template<class S,class XX> static S ew(const XX& X){ return X.coeffs()(2); }
  template<class S,class X> static S rotsq(const X& t){ return t.coeffs()(2)*t.coeffs()(2); } enum{A=3}; template<class S,class X> static Mat<S,A> alg(const X& t){ Mat<S,A> m=hat<S>(t).template topLeftCorner<A,A>(); return m; } static const char* nm(){return "SE2";} enum{H=3,P=2,DoF=3,Rep=4};
  
  template<class R> static G<typename R::S> make(R& rec,const std::string& p,int w){ typedef typename R::S S; S x=rec.var(p+"x",WV[w][0]),y=rec.var(p+"y",WV[w][1]); auto c=unitc(rec,p,w); return G<S>(x,y,c(0),c(1)); }
  template<class R> static T<typename R::S> maket(R& rec,const std::string& p,int w){ typedef typename R::S S; return T<S>(rec.var(p+"x",WV[w][0]),rec.var(p+"y",WV[w][1]),rec.var(p+"th",WW[w][0])); }
  template<class S,class X> static Mat<S,H> M(const X& g){ S z(0.0),o(1.0); auto&c=g.coeffs(); Mat<S,H> m; m<<c(2),-c(3),c(0), c(3),c(2),c(1), z,z,o; return m; }
  template<class S,class X> static Mat<S,H> hat(const X& t){ S z(0.0); auto&c=t.coeffs(); Mat<S,H> m; m<<z,-c(2),c(0), c(2),z,c(1), z,z,z; return m; }
  template<class S> static Mat<S,H,1> hom(const Mat<S,P,1>& p){ Mat<S,H,1> h; h<<p(0),p(1),S(1.0); return h; }
};
struct SO3t { template<class S> using G=manif::SO3<S>; template<class S> using T=manif::SO3Tangent<S>; template<class R> static G<typename R::S> makec(R& rec,int k){ typedef typename R::S S; Mat<S,4,1> q=cq(rec,k); return G<S>(q); }
  template<class R> static T<typename R::S> maket0(R& rec,const std::string& p,int w){ typedef typename R::S S; Mat<S,3,1> v=Mat<S,3,1>::Zero(); return T<S>(v); }
  template<class R> static T<typename R::S> maketc(R& rec,int k){ typedef typename R::S S; Mat<S,3,1> w=cw(rec,k); return T<S>(w); }
  template<class S,class GA,class GB,class MM> static G<S> assemble(const GA& A,const GB& B,const MM& Mp){ Mat<S,4,1> qa=A.coeffs(), qb=B.coeffs(); Mat<S,4,1> c=qmul<S>(qa,qb); return G<S>(c); }
  template<class J,class GJ,class TJ,class MM> static GJ fromM(const GJ& X,const TJ& d,const MM& Mp){ Mat<J,4,1> q=X.coeffs(); Mat<J,3,1> w=d.coeffs(); Mat<J,4,1> c=qpert<J>(q,w); return GJ(c); }
  template<class S,class XX> static S erotsq(const XX& X){ return X.coeffs().template head<3>().squaredNorm(); } template<class S,class XX> static S ew(const XX& X){ return X.coeffs()(3); }
  template<class S,class X> static S rotsq(const X& t){ return t.coeffs().squaredNorm(); } enum{A=3}; template<class S,class X> static Mat<S,A> alg(const X& t){ Mat<S,A> m=hat<S>(t).template topLeftCorner<A,A>(); return m; } static const char* nm(){return "SO3";} enum{H=4,P=3,DoF=3,Rep=4};
  
  template<class R> static G<typename R::S> make(R& rec,const std::string& p,int w){ typedef typename R::S S; Mat<S,4,1> q=unitq(rec,p,w); return G<S>(q); }
  template<class R> static T<typename R::S> maket(R& rec,const std::string& p,int w){ typedef typename R::S S; Mat<S,3,1> v=vec3(rec,p+"w",WW[w]); return T<S>(v); }
  template<class S,class X> static Mat<S,H> M(const X& g){ Mat<S,H> m=Mat<S,H>::Identity(); Mat<S,4,1> q=g.coeffs(); m.template topLeftCorner<3,3>()=Rq<S>(q); return m; }
  template<class S,class X> static Mat<S,H> hat(const X& t){ Mat<S,H> m=Mat<S,H>::Zero(); Mat<S,3,1> w=t.coeffs(); m.template topLeftCorner<3,3>()=skew3<S>(w); return m; }
  template<class S> static Mat<S,H,1> hom(const Mat<S,P,1>& p){ Mat<S,H,1> h; h<<p(0),p(1),p(2),S(1.0); return h; }
};
struct SE3t { template<class S> using G=manif::SE3<S>; template<class S> using T=manif::SE3Tangent<S>; template<class R> static G<typename R::S> makec(R& rec,int k){ typedef typename R::S S; Mat<S,7,1> c; c.template head<3>()=cv(rec,k); c.template tail<4>()=cq(rec,k); return G<S>(c); }
  template<class R> static T<typename R::S> maket0(R& rec,const std::string& p,int w){ typedef typename R::S S; Mat<S,6,1> c=Mat<S,6,1>::Zero(); c.template head<3>()=vec3(rec,p+"v",WV[w]); return T<S>(c); }
  template<class R> static T<typename R::S> maketc(R& rec,int k){ typedef typename R::S S; Mat<S,6,1> c; c.template head<3>()=cv(rec,k); c.template tail<3>()=cw(rec,k); return T<S>(c); }
  template<class S,class GA,class GB,class MM> static G<S> assemble(const GA& A,const GB& B,const MM& Mp){ Mat<S,4,1> qa=A.coeffs().template segment<4>(3), qb=B.coeffs().template segment<4>(3); Mat<S,7,1> c; c.template head<3>()=Mp.template block<3,1>(0,3); c.template tail<4>()=qmul<S>(qa,qb); return G<S>(c); }
  template<class J,class GJ,class TJ,class MM> static GJ fromM(const GJ& X,const TJ& d,const MM& Mp){ Mat<J,4,1> q=X.coeffs().template segment<4>(3); Mat<J,3,1> w=d.coeffs().template tail<3>(); Mat<J,7,1> c; c.template head<3>()=Mp.template block<3,1>(0,3); c.template tail<4>()=qpert<J>(q,w); return GJ(c); }
  template<class S,class XX> static S erotsq(const XX& X){ return X.coeffs().template segment<3>(3).squaredNorm(); } template<class S,class XX> static S ew(const XX& X){ return X.coeffs()(6); }
  template<class S,class X> static S rotsq(const X& t){ return t.coeffs().template tail<3>().squaredNorm(); } enum{A=4}; template<class S,class X> static Mat<S,A> alg(const X& t){ Mat<S,A> m=hat<S>(t).template topLeftCorner<A,A>(); return m; } static const char* nm(){return "SE3";} enum{H=4,P=3,DoF=6,Rep=7};
  
  template<class R> static G<typename R::S> make(R& rec,const std::string& p,int w){ typedef typename R::S S; Mat<S,7,1> c; c.template head<3>()=vec3(rec,p,WV[w]); c.template tail<4>()=unitq(rec,p,w); return G<S>(c); }
  template<class R> static T<typename R::S> maket(R& rec,const std::string& p,int w){ typedef typename R::S S; Mat<S,6,1> c; c.template head<3>()=vec3(rec,p+"v",WV[w]); c.template tail<3>()=vec3(rec,p+"w",WW[w]); return T<S>(c); }
  template<class S,class X> static Mat<S,H> M(const X& g){ Mat<S,H> m=Mat<S,H>::Identity(); auto&c=g.coeffs(); Mat<S,4,1> q=c.template segment<4>(3); m.template topLeftCorner<3,3>()=Rq<S>(q); m.template topRightCorner<3,1>()=c.template head<3>(); return m; }
  template<class S,class X> static Mat<S,H> hat(const X& t){ Mat<S,H> m=Mat<S,H>::Zero(); auto&c=t.coeffs(); Mat<S,3,1> w=c.template tail<3>(); m.template topLeftCorner<3,3>()=skew3<S>(w); m.template topRightCorner<3,1>()=c.template head<3>(); return m; }
  template<class S> static Mat<S,H,1> hom(const Mat<S,P,1>& p){ Mat<S,H,1> h; h<<p(0),p(1),p(2),S(1.0); return h; }
};
struct SE23t { template<class S> using G=manif::SE_2_3<S>; template<class S> using T=manif::SE_2_3Tangent<S>; template<class R> static G<typename R::S> makec(R& rec,int k){ typedef typename R::S S; Mat<S,10,1> c; c.template head<3>()=cv(rec,k); c.template segment<4>(3)=cq(rec,k); c.template tail<3>()=cv(rec,(k+1)%4); return G<S>(c); }
  template<class R> static T<typename R::S> maket0(R& rec,const std::string& p,int w){ typedef typename R::S S; Mat<S,9,1> c=Mat<S,9,1>::Zero(); c.template head<3>()=vec3(rec,p+"v",WV[w]); c.template tail<3>()=vec3(rec,p+"a",WV[(w+2)%4]); return T<S>(c); }
  template<class R> static T<typename R::S> maketc(R& rec,int k){ typedef typename R::S S; Mat<S,9,1> c; c.template head<3>()=cv(rec,k); c.template segment<3>(3)=cw(rec,k); c.template tail<3>()=cv(rec,(k+2)%4); return T<S>(c); }
  template<class S,class GA,class GB,class MM> static G<S> assemble(const GA& A,const GB& B,const MM& Mp){ Mat<S,4,1> qa=A.coeffs().template segment<4>(3), qb=B.coeffs().template segment<4>(3); Mat<S,10,1> c; c.template head<3>()=Mp.template block<3,1>(0,3); c.template segment<4>(3)=qmul<S>(qa,qb); c.template tail<3>()=Mp.template block<3,1>(0,4); return G<S>(c); }
  template<class J,class GJ,class TJ,class MM> static GJ fromM(const GJ& X,const TJ& d,const MM& Mp){ Mat<J,4,1> q=X.coeffs().template segment<4>(3); Mat<J,3,1> w=d.coeffs().template segment<3>(3); Mat<J,10,1> c; c.template head<3>()=Mp.template block<3,1>(0,3); c.template segment<4>(3)=qpert<J>(q,w); c.template tail<3>()=Mp.template block<3,1>(0,4); return GJ(c); }
  template<class S,class XX> static S erotsq(const XX& X){ return X.coeffs().template segment<3>(3).squaredNorm(); } template<class S,class XX> static S ew(const XX& X){ return X.coeffs()(6); }
  template<class S,class X> static S rotsq(const X& t){ return t.coeffs().template segment<3>(3).squaredNorm(); } enum{A=5}; template<class S,class X> static Mat<S,A> alg(const X& t){ Mat<S,A> m=hat<S>(t).template topLeftCorner<A,A>(); return m; } static const char* nm(){return "SE_2_3";} enum{H=5,P=3,DoF=9,Rep=10};
  
  template<class R> static G<typename R::S> make(R& rec,const std::string& p,int w){ typedef typename R::S S; Mat<S,10,1> c; c.template head<3>()=vec3(rec,p,WV[w]); c.template segment<4>(3)=unitq(rec,p,w); c.template tail<3>()=vec3(rec,p+"v",WV[(w+1)%4]); return G<S>(c); }
  template<class R> static T<typename R::S> maket(R& rec,const std::string& p,int w){ typedef typename R::S S; Mat<S,9,1> c; c.template head<3>()=vec3(rec,p+"v",WV[w]); c.template segment<3>(3)=vec3(rec,p+"w",WW[w]); c.template tail<3>()=vec3(rec,p+"a",WV[(w+2)%4]); return T<S>(c); }
  template<class S,class X> static Mat<S,H> M(const X& g){ Mat<S,H> m=Mat<S,H>::Identity(); auto&c=g.coeffs(); Mat<S,4,1> q=c.template segment<4>(3); m.template topLeftCorner<3,3>()=Rq<S>(q); m.template block<3,1>(0,3)=c.template head<3>(); m.template block<3,1>(0,4)=c.template tail<3>(); return m; }
  template<class S,class X> static Mat<S,H> hat(const X& t){ Mat<S,H> m=Mat<S,H>::Zero(); auto&c=t.coeffs(); Mat<S,3,1> w=c.template segment<3>(3); m.template topLeftCorner<3,3>()=skew3<S>(w); m.template block<3,1>(0,3)=c.template head<3>(); m.template block<3,1>(0,4)=c.template tail<3>(); return m; }
  template<class S> static Mat<S,H,1> hom(const Mat<S,P,1>& p){ Mat<S,H,1> h; h<<p(0),p(1),p(2),S(1.0),S(0.0); return h; }
};
struct SGal3t { template<class S> using G=manif::SGal3<S>; template<class S> using T=manif::SGal3Tangent<S>; template<class R> static G<typename R::S> makec(R& rec,int k){ typedef typename R::S S; Mat<S,11,1> c; c.template head<3>()=cv(rec,k); c.template segment<4>(3)=cq(rec,k); c.template segment<3>(7)=cv(rec,(k+1)%4); c(10)=rec.rat(3+2*k,4); return G<S>(c); }
  template<class R> static T<typename R::S> maket0(R& rec,const std::string& p,int w){ typedef typename R::S S; Mat<S,10,1> c=Mat<S,10,1>::Zero(); c.template head<3>()=vec3(rec,p+"p",WV[w]); c.template segment<3>(3)=vec3(rec,p+"v",WV[(w+2)%4]); c(9)=rec.var(p+"s",0.7-0.3*w); return T<S>(c); }
  template<class R> static T<typename R::S> maketc(R& rec,int k){ typedef typename R::S S; Mat<S,10,1> c; c.template head<3>()=cv(rec,k); c.template segment<3>(3)=cv(rec,(k+2)%4); c.template segment<3>(6)=cw(rec,k); c(9)=rec.rat(3-k,4); return T<S>(c); }
  template<class S,class GA,class GB,class MM> static G<S> assemble(const GA& A,const GB& B,const MM& Mp){ Mat<S,4,1> qa=A.coeffs().template segment<4>(3), qb=B.coeffs().template segment<4>(3); Mat<S,11,1> c; c.template head<3>()=Mp.template block<3,1>(0,4); c.template segment<4>(3)=qmul<S>(qa,qb); c.template segment<3>(7)=Mp.template block<3,1>(0,3); c(10)=Mp(3,4); return G<S>(c); }
  template<class J,class GJ,class TJ,class MM> static GJ fromM(const GJ& X,const TJ& d,const MM& Mp){ Mat<J,4,1> q=X.coeffs().template segment<4>(3); Mat<J,3,1> w=d.coeffs().template segment<3>(6); Mat<J,11,1> c; c.template head<3>()=Mp.template block<3,1>(0,4); c.template segment<4>(3)=qpert<J>(q,w); c.template segment<3>(7)=Mp.template block<3,1>(0,3); c(10)=Mp(3,4); return GJ(c); }
  template<class S,class XX> static S erotsq(const XX& X){ return X.coeffs().template segment<3>(3).squaredNorm(); } template<class S,class XX> static S ew(const XX& X){ return X.coeffs()(6); }
  template<class S,class X> static S rotsq(const X& t){ return t.coeffs().template segment<3>(6).squaredNorm(); } enum{A=5}; template<class S,class X> static Mat<S,A> alg(const X& t){ Mat<S,A> m=hat<S>(t).template topLeftCorner<A,A>(); return m; } static const char* nm(){return "SGal3";} enum{H=5,P=3,DoF=10,Rep=11};
  
  template<class R> static G<typename R::S> make(R& rec,const std::string& p,int w){ typedef typename R::S S; Mat<S,11,1> c; c.template head<3>()=vec3(rec,p,WV[w]); c.template segment<4>(3)=unitq(rec,p,w); c.template segment<3>(7)=vec3(rec,p+"v",WV[(w+1)%4]); c(10)=rec.var(p+"t",0.7+0.4*w); return G<S>(c); }
  template<class R> static T<typename R::S> maket(R& rec,const std::string& p,int w){ typedef typename R::S S; Mat<S,10,1> c; c.template head<3>()=vec3(rec,p+"p",WV[w]); c.template segment<3>(3)=vec3(rec,p+"v",WV[(w+2)%4]); c.template segment<3>(6)=vec3(rec,p+"w",WW[w]); c(9)=rec.var(p+"s",0.7-0.3*w); return T<S>(c); }
  template<class S,class X> static Mat<S,H> M(const X& g){ Mat<S,H> m=Mat<S,H>::Identity(); auto&c=g.coeffs(); Mat<S,4,1> q=c.template segment<4>(3); m.template topLeftCorner<3,3>()=Rq<S>(q); m.template block<3,1>(0,3)=c.template segment<3>(7); m.template block<3,1>(0,4)=c.template head<3>(); m(3,4)=c(10); return m; }
  template<class S,class X> static Mat<S,H> hat(const X& t){ Mat<S,H> m=Mat<S,H>::Zero(); auto&c=t.coeffs(); Mat<S,3,1> w=c.template segment<3>(6); m.template topLeftCorner<3,3>()=skew3<S>(w); m.template block<3,1>(0,3)=c.template segment<3>(3); m.template block<3,1>(0,4)=c.template head<3>(); m(3,4)=c(9); return m; }
  template<class S> static Mat<S,H,1> hom(const Mat<S,P,1>& p){ Mat<S,H,1> h; h<<p(0),p(1),p(2),S(0.0),S(1.0); return h; }
};
template<int N> struct Rnt { template<class S> using G=manif::Rn<S,N>; template<class S> using T=manif::RnTangent<S,N>; template<class R> static G<typename R::S> makec(R& rec,int k){ typedef typename R::S S; Mat<S,N,1> c; for(int i=0;i<N;i++) c(i)=rec.rat(KV[k][i%3]+i,4); return G<S>(c); }
  template<class R> static T<typename R::S> maket0(R& rec,const std::string& p,int w){ return maket(rec,p,w); }
  template<class R> static T<typename R::S> maketc(R& rec,int k){ typedef typename R::S S; Mat<S,N,1> c; for(int i=0;i<N;i++) c(i)=rec.rat(KW[k][i%3]-i,10); return T<S>(c); }
  template<class S,class GA,class GB,class MM> static G<S> assemble(const GA& A,const GB& B,const MM& Mp){ Mat<S,N,1> c; for(int i=0;i<N;i++) c(i)=Mp(i,N); return G<S>(c); }
  template<class J,class GJ,class TJ,class MM> static GJ fromM(const GJ& X,const TJ& d,const MM& Mp){ Mat<J,N,1> c; for(int i=0;i<N;i++) c(i)=Mp(i,N); return GJ(c); }
  template<class S,class XX> static S erotsq(const XX&){ return S(1.0); } template<class S,class XX> static S ew(const XX&){ return S(1.0); }
  template<class S,class X> static S rotsq(const X&){ return S(0.0); } enum{A=N+1}; template<class S,class X> static Mat<S,A> alg(const X& t){ return hat<S>(t); } static const char* nm(){ static std::string s="R"+std::to_string(N); return s.c_str(); } enum{H=N+1,P=N,DoF=N,Rep=N};
  
  template<class R> static G<typename R::S> make(R& rec,const std::string& p,int w){ typedef typename R::S S; Mat<S,N,1> c; for(int i=0;i<N;i++) c(i)=rec.var(p+"x"+std::to_string(i),WV[w][i%3]+0.125*i); return G<S>(c); }
  template<class R> static T<typename R::S> maket(R& rec,const std::string& p,int w){ typedef typename R::S S; Mat<S,N,1> c; for(int i=0;i<N;i++) c(i)=rec.var(p+"t"+std::to_string(i),WW[w][i%3]-0.25*i); return T<S>(c); }
  template<class S,class X> static Mat<S,H> M(const X& g){ Mat<S,H> m=Mat<S,H>::Identity(); for(int i=0;i<N;i++) m(i,N)=g.coeffs()(i); return m; }
  template<class S,class X> static Mat<S,H> hat(const X& t){ Mat<S,H> m=Mat<S,H>::Zero(); for(int i=0;i<N;i++) m(i,N)=t.coeffs()(i); return m; }
  template<class S> static Mat<S,H,1> hom(const Mat<S,P,1>& p){ Mat<S,H,1> h; for(int i=0;i<N;i++) h(i)=p(i); h(N)=S(1.0); return h; }
};
typedef Rnt<1> R1t; typedef Rnt<3> R3t; typedef Rnt<5> R5t;

template<class R,int N> Mat<typename R::S,N,1> vecn(R& rec,const std::string& p,int w){ Mat<typename R::S,N,1> v; for(int i=0;i<N;i++) v(i)=rec.var(p+std::to_string(i), WV[w][i%3]*(1+i/3)); return v; }
// Bundle tag over a list of element tags (only what the structural harnesses need: make, maket, sizes)
template<class... Tg> struct BSum; template<> struct BSum<>{ enum{DoF=0,Rep=0,P=0}; };
template<class A_,class... Tg> struct BSum<A_,Tg...>{ enum{DoF=A_::DoF+BSum<Tg...>::DoF, Rep=A_::Rep+BSum<Tg...>::Rep, P=A_::P+BSum<Tg...>::P}; };
template<class... Tg> struct Bnd { static const char* nm(){ return "Bundle"; } enum{DoF=BSum<Tg...>::DoF, Rep=BSum<Tg...>::Rep, P=BSum<Tg...>::P, H=0, A=0};
  template<class S> using G=manif::Bundle<S, Tg::template G...>; template<class S> using T=manif::BundleTangent<S, Tg::template G...>;
  template<class R,class V> static void fill(R&,const std::string&,int,V&,int){}
  template<class R,class V,class A_,class... Rest> static void fillg(R& rec,const std::string& p,int w,V& c,int off,int idx){ auto e=A_::make(rec,p+std::to_string(idx)+"_",(w+idx)%4); c.template segment<A_::Rep>(off)=e.coeffs(); fillg_next<R,V,Rest...>(rec,p,w,c,off+A_::Rep,idx+1); }
  template<class R,class V> static void fillg_next(R&,const std::string&,int,V&,int,int){}
  template<class R,class V,class A_,class... Rest> static void fillg_next(R& rec,const std::string& p,int w,V& c,int off,int idx){ fillg<R,V,A_,Rest...>(rec,p,w,c,off,idx); }
  template<class R,class V,class A_,class... Rest> static void fillt(R& rec,const std::string& p,int w,V& c,int off,int idx){ auto e=A_::maket(rec,p+std::to_string(idx)+"_",(w+idx)%4); c.template segment<A_::DoF>(off)=e.coeffs(); fillt_next<R,V,Rest...>(rec,p,w,c,off+A_::DoF,idx+1); }
  template<class R,class V> static void fillt_next(R&,const std::string&,int,V&,int,int){}
  template<class R,class V,class A_,class... Rest> static void fillt_next(R& rec,const std::string& p,int w,V& c,int off,int idx){ fillt<R,V,A_,Rest...>(rec,p,w,c,off,idx); }
  template<class R> static G<typename R::S> make(R& rec,const std::string& p,int w){ typedef typename R::S S; Mat<S,Rep,1> c; fillg<R,Mat<S,Rep,1>,Tg...>(rec,p,w,c,0,0); return G<S>(c); }
  template<class R> static T<typename R::S> maket(R& rec,const std::string& p,int w){ typedef typename R::S S; Mat<S,DoF,1> c; fillt<R,Mat<S,DoF,1>,Tg...>(rec,p,w,c,0,0); return T<S>(c); }
};
// Harness-side composition A*B written from the documented matrix-group structure only (quaternion / complex
// product for the rotation coefficients, matrix product for the rest). Used to re-parametrise arguments.
template<class Tg,class S,class GA,class GB> typename Tg::template G<S> hcompose(const GA& A,const GB& B){
  typedef typename Tg::template G<S> G; typedef typename Tg::template T<S> T;
  Mat<S,Tg::H> Mp=Tg::template M<S>(A)*Tg::template M<S>(B);
  return Tg::template assemble<S>(A,B,Mp);
}
// hypothesis: rotation magnitude of a tangent below pi (injectivity radius / the property's stated domain)
template<class Tg,class R,class T> void assume_rot_below_pi(R& rec, const T& t){ typedef typename R::S S; S r=Tg::template rotsq<S>(t); if(!(Tg::DoF==Tg::P && Tg::H==Tg::P+1 && Tg::Rep==Tg::P)) rec.assume(r, 0, S(9.869604)); } // 9.869604 < pi^2
// element-side hypotheses: rotation part not the identity (vector / imaginary part non-zero), rotation angle not exactly pi (w != 0)
template<class Tg,class R,class X> void assume_elem_rot_positive(R& rec,const X& x){ typedef typename R::S S; if(!(Tg::DoF==Tg::P && Tg::H==Tg::P+1 && Tg::Rep==Tg::P)) rec.assume(S(0.0),0,Tg::template erotsq<S>(x)); }
template<class Tg,class R,class X> void assume_not_half_turn(R& rec,const X& x){ typedef typename R::S S; if(!(Tg::DoF==Tg::P && Tg::H==Tg::P+1 && Tg::Rep==Tg::P) && Tg::H>=4) rec.assume(Tg::template ew<S>(x),3,S(0.0)); }   // quaternion groups only: w = 0 is the rotation by pi (the planar groups have a single-valued principal logarithm at the half turn)
template<class Tg,class R,class T> void assume_rot_positive(R& rec, const T& t){ typedef typename R::S S; S r=Tg::template rotsq<S>(t); if(!(Tg::DoF==Tg::P && Tg::H==Tg::P+1 && Tg::Rep==Tg::P)) rec.assume(S(0.0), 0, r); }
} // namespace gx
#ifdef ZERO_ROT
#define MAKET(Tg,R,p,w) Tg::maket0(R,p,w)
#else
#define MAKET(Tg,R,p,w) Tg::maket(R,p,w)
#endif
