// Group tags: for each manif group, how to make a symbolic valid element /
// tangent, and the *documented* homogeneous matrix / hat matrix written out
// independently of the library (the oracle side of C01/C02/C07/C13).
#pragma once
#include "harness.h"
namespace gx {
using hx::Rec;
template<class S,int R,int C=R> using Mat = Eigen::Matrix<S,R,C>;

// witness tables (w selects a row). Rotation parts are (approximately) unit.
static const double WQ[4][4] = { {0.1,0.2,0.3,0.9273618495495704}, {0.5,-0.5,0.5,0.5}, {-0.3,0.4,0.1,-0.8602325267042626}, {0.6,0.0,-0.64,0.48} };
static const double WC[4][2] = { {0.8,0.6}, {-0.28,0.96}, {0.6,-0.8}, {-0.96,-0.28} };
static const double WV[4][3] = { {1.0,2.0,3.0}, {-1.0,0.5,2.0}, {0.25,-4.0,1.5}, {3.0,-2.0,-0.5} };
static const double WW[4][3] = { {0.3,-0.4,0.5}, {-0.2,0.1,0.7}, {1.1,0.3,-0.6}, {0.05,0.02,-0.03} };

template<class R> Mat<typename R::S,3,1> vec3(R& rec, const std::string& p, const double* w){
  Mat<typename R::S,3,1> v; v<<rec.var(p+"x",w[0]),rec.var(p+"y",w[1]),rec.var(p+"z",w[2]); return v; }
template<class R> Mat<typename R::S,4,1> unitq(R& rec, const std::string& p, int w){
  typedef typename R::S S; Mat<S,4,1> q; q<<rec.var(p+"qx",WQ[w][0]),rec.var(p+"qy",WQ[w][1]),rec.var(p+"qz",WQ[w][2]),rec.var(p+"qw",WQ[w][3]);
  rec.hyp("unitq",{q(0),q(1),q(2),q(3)}); return q; }
template<class R> Mat<typename R::S,2,1> unitc(R& rec, const std::string& p, int w){
  typedef typename R::S S; Mat<S,2,1> c; c<<rec.var(p+"re",WC[w][0]),rec.var(p+"im",WC[w][1]); rec.hyp("unitc",{c(0),c(1)}); return c; }
// documented rotation matrix of a unit quaternion (x,y,z,w)
template<class S> Mat<S,3,3> Rq(const Mat<S,4,1>& q){
  S x=q(0),y=q(1),z=q(2),w=q(3); Mat<S,3,3> R; S two(2.0), one(1.0);
  R<< one-two*(y*y+z*z), two*(x*y-z*w), two*(x*z+y*w),
      two*(x*y+z*w), one-two*(x*x+z*z), two*(y*z-x*w),
      two*(x*z-y*w), two*(y*z+x*w), one-two*(x*x+y*y);
  return R; }
template<class S> Mat<S,3,3> skew3(const Mat<S,3,1>& v){ Mat<S,3,3> m; S z(0.0); m<<z,-v(2),v(1), v(2),z,-v(0), -v(1),v(0),z; return m; }

struct SO2t { template<class S,class X> static S rotsq(const X& t){ return t.coeffs()(0)*t.coeffs()(0); } enum{A=2}; template<class S,class X> static Mat<S,A> alg(const X& t){ Mat<S,A> m=hat<S>(t).template topLeftCorner<A,A>(); return m; } static const char* nm(){return "SO2";} enum{H=3,P=2,DoF=1,Rep=2};
  template<class S> using G=manif::SO2<S>; template<class S> using T=manif::SO2Tangent<S>;
  template<class R> static G<typename R::S> make(R& rec,const std::string& p,int w){ auto c=unitc(rec,p,w); return G<typename R::S>(c(0),c(1)); }
  template<class R> static T<typename R::S> maket(R& rec,const std::string& p,int w){ return T<typename R::S>(rec.var(p+"th",WW[w][0])); }
  template<class S,class X> static Mat<S,H> M(const X& g){ S z(0.0),o(1.0); Mat<S,H> m; m<<g.coeffs()(0),-g.coeffs()(1),z, g.coeffs()(1),g.coeffs()(0),z, z,z,o; return m; }
  template<class S,class X> static Mat<S,H> hat(const X& t){ S z(0.0); Mat<S,H> m; m<<z,-t.coeffs()(0),z, t.coeffs()(0),z,z, z,z,z; return m; }
  template<class S> static Mat<S,H,1> hom(const Mat<S,P,1>& p){ Mat<S,H,1> h; h<<p(0),p(1),S(1.0); return h; }
  static int nrot(){return 1;} // rotation-part kind: 1 complex, 2 quaternion, 0 none
};
struct SE2t { template<class S,class X> static S rotsq(const X& t){ return t.coeffs()(2)*t.coeffs()(2); } enum{A=3}; template<class S,class X> static Mat<S,A> alg(const X& t){ Mat<S,A> m=hat<S>(t).template topLeftCorner<A,A>(); return m; } static const char* nm(){return "SE2";} enum{H=3,P=2,DoF=3,Rep=4};
  template<class S> using G=manif::SE2<S>; template<class S> using T=manif::SE2Tangent<S>;
  template<class R> static G<typename R::S> make(R& rec,const std::string& p,int w){ typedef typename R::S S; S x=rec.var(p+"x",WV[w][0]),y=rec.var(p+"y",WV[w][1]); auto c=unitc(rec,p,w); return G<S>(x,y,c(0),c(1)); }
  template<class R> static T<typename R::S> maket(R& rec,const std::string& p,int w){ typedef typename R::S S; return T<S>(rec.var(p+"x",WV[w][0]),rec.var(p+"y",WV[w][1]),rec.var(p+"th",WW[w][0])); }
  template<class S,class X> static Mat<S,H> M(const X& g){ S z(0.0),o(1.0); auto&c=g.coeffs(); Mat<S,H> m; m<<c(2),-c(3),c(0), c(3),c(2),c(1), z,z,o; return m; }
  template<class S,class X> static Mat<S,H> hat(const X& t){ S z(0.0); auto&c=t.coeffs(); Mat<S,H> m; m<<z,-c(2),c(0), c(2),z,c(1), z,z,z; return m; }
  template<class S> static Mat<S,H,1> hom(const Mat<S,P,1>& p){ Mat<S,H,1> h; h<<p(0),p(1),S(1.0); return h; }
};
struct SO3t { template<class S,class X> static S rotsq(const X& t){ return t.coeffs().squaredNorm(); } enum{A=3}; template<class S,class X> static Mat<S,A> alg(const X& t){ Mat<S,A> m=hat<S>(t).template topLeftCorner<A,A>(); return m; } static const char* nm(){return "SO3";} enum{H=4,P=3,DoF=3,Rep=4};
  template<class S> using G=manif::SO3<S>; template<class S> using T=manif::SO3Tangent<S>;
  template<class R> static G<typename R::S> make(R& rec,const std::string& p,int w){ typedef typename R::S S; Mat<S,4,1> q=unitq(rec,p,w); return G<S>(q); }
  template<class R> static T<typename R::S> maket(R& rec,const std::string& p,int w){ typedef typename R::S S; Mat<S,3,1> v=vec3(rec,p+"w",WW[w]); return T<S>(v); }
  template<class S,class X> static Mat<S,H> M(const X& g){ Mat<S,H> m=Mat<S,H>::Identity(); Mat<S,4,1> q=g.coeffs(); m.template topLeftCorner<3,3>()=Rq<S>(q); return m; }
  template<class S,class X> static Mat<S,H> hat(const X& t){ Mat<S,H> m=Mat<S,H>::Zero(); Mat<S,3,1> w=t.coeffs(); m.template topLeftCorner<3,3>()=skew3<S>(w); return m; }
  template<class S> static Mat<S,H,1> hom(const Mat<S,P,1>& p){ Mat<S,H,1> h; h<<p(0),p(1),p(2),S(1.0); return h; }
};
struct SE3t { template<class S,class X> static S rotsq(const X& t){ return t.coeffs().template tail<3>().squaredNorm(); } enum{A=4}; template<class S,class X> static Mat<S,A> alg(const X& t){ Mat<S,A> m=hat<S>(t).template topLeftCorner<A,A>(); return m; } static const char* nm(){return "SE3";} enum{H=4,P=3,DoF=6,Rep=7};
  template<class S> using G=manif::SE3<S>; template<class S> using T=manif::SE3Tangent<S>;
  template<class R> static G<typename R::S> make(R& rec,const std::string& p,int w){ typedef typename R::S S; Mat<S,7,1> c; c.template head<3>()=vec3(rec,p,WV[w]); c.template tail<4>()=unitq(rec,p,w); return G<S>(c); }
  template<class R> static T<typename R::S> maket(R& rec,const std::string& p,int w){ typedef typename R::S S; Mat<S,6,1> c; c.template head<3>()=vec3(rec,p+"v",WV[w]); c.template tail<3>()=vec3(rec,p+"w",WW[w]); return T<S>(c); }
  template<class S,class X> static Mat<S,H> M(const X& g){ Mat<S,H> m=Mat<S,H>::Identity(); auto&c=g.coeffs(); Mat<S,4,1> q=c.template segment<4>(3); m.template topLeftCorner<3,3>()=Rq<S>(q); m.template topRightCorner<3,1>()=c.template head<3>(); return m; }
  template<class S,class X> static Mat<S,H> hat(const X& t){ Mat<S,H> m=Mat<S,H>::Zero(); auto&c=t.coeffs(); Mat<S,3,1> w=c.template tail<3>(); m.template topLeftCorner<3,3>()=skew3<S>(w); m.template topRightCorner<3,1>()=c.template head<3>(); return m; }
  template<class S> static Mat<S,H,1> hom(const Mat<S,P,1>& p){ Mat<S,H,1> h; h<<p(0),p(1),p(2),S(1.0); return h; }
};
struct SE23t { template<class S,class X> static S rotsq(const X& t){ return t.coeffs().template segment<3>(3).squaredNorm(); } enum{A=5}; template<class S,class X> static Mat<S,A> alg(const X& t){ Mat<S,A> m=hat<S>(t).template topLeftCorner<A,A>(); return m; } static const char* nm(){return "SE_2_3";} enum{H=5,P=3,DoF=9,Rep=10};
  template<class S> using G=manif::SE_2_3<S>; template<class S> using T=manif::SE_2_3Tangent<S>;
  template<class R> static G<typename R::S> make(R& rec,const std::string& p,int w){ typedef typename R::S S; Mat<S,10,1> c; c.template head<3>()=vec3(rec,p,WV[w]); c.template segment<4>(3)=unitq(rec,p,w); c.template tail<3>()=vec3(rec,p+"v",WV[(w+1)%4]); return G<S>(c); }
  template<class R> static T<typename R::S> maket(R& rec,const std::string& p,int w){ typedef typename R::S S; Mat<S,9,1> c; c.template head<3>()=vec3(rec,p+"v",WV[w]); c.template segment<3>(3)=vec3(rec,p+"w",WW[w]); c.template tail<3>()=vec3(rec,p+"a",WV[(w+2)%4]); return T<S>(c); }
  template<class S,class X> static Mat<S,H> M(const X& g){ Mat<S,H> m=Mat<S,H>::Identity(); auto&c=g.coeffs(); Mat<S,4,1> q=c.template segment<4>(3); m.template topLeftCorner<3,3>()=Rq<S>(q); m.template block<3,1>(0,3)=c.template head<3>(); m.template block<3,1>(0,4)=c.template tail<3>(); return m; }
  template<class S,class X> static Mat<S,H> hat(const X& t){ Mat<S,H> m=Mat<S,H>::Zero(); auto&c=t.coeffs(); Mat<S,3,1> w=c.template segment<3>(3); m.template topLeftCorner<3,3>()=skew3<S>(w); m.template block<3,1>(0,3)=c.template head<3>(); m.template block<3,1>(0,4)=c.template tail<3>(); return m; }
  template<class S> static Mat<S,H,1> hom(const Mat<S,P,1>& p){ Mat<S,H,1> h; h<<p(0),p(1),p(2),S(1.0),S(0.0); return h; }
};
struct SGal3t { template<class S,class X> static S rotsq(const X& t){ return t.coeffs().template segment<3>(6).squaredNorm(); } enum{A=5}; template<class S,class X> static Mat<S,A> alg(const X& t){ Mat<S,A> m=hat<S>(t).template topLeftCorner<A,A>(); return m; } static const char* nm(){return "SGal3";} enum{H=5,P=3,DoF=10,Rep=11};
  template<class S> using G=manif::SGal3<S>; template<class S> using T=manif::SGal3Tangent<S>;
  template<class R> static G<typename R::S> make(R& rec,const std::string& p,int w){ typedef typename R::S S; Mat<S,11,1> c; c.template head<3>()=vec3(rec,p,WV[w]); c.template segment<4>(3)=unitq(rec,p,w); c.template segment<3>(7)=vec3(rec,p+"v",WV[(w+1)%4]); c(10)=rec.var(p+"t",0.7+0.4*w); return G<S>(c); }
  template<class R> static T<typename R::S> maket(R& rec,const std::string& p,int w){ typedef typename R::S S; Mat<S,10,1> c; c.template head<3>()=vec3(rec,p+"p",WV[w]); c.template segment<3>(3)=vec3(rec,p+"v",WV[(w+2)%4]); c.template segment<3>(6)=vec3(rec,p+"w",WW[w]); c(9)=rec.var(p+"s",0.7-0.3*w); return T<S>(c); }
  template<class S,class X> static Mat<S,H> M(const X& g){ Mat<S,H> m=Mat<S,H>::Identity(); auto&c=g.coeffs(); Mat<S,4,1> q=c.template segment<4>(3); m.template topLeftCorner<3,3>()=Rq<S>(q); m.template block<3,1>(0,3)=c.template segment<3>(7); m.template block<3,1>(0,4)=c.template head<3>(); m(3,4)=c(10); return m; }
  template<class S,class X> static Mat<S,H> hat(const X& t){ Mat<S,H> m=Mat<S,H>::Zero(); auto&c=t.coeffs(); Mat<S,3,1> w=c.template segment<3>(6); m.template topLeftCorner<3,3>()=skew3<S>(w); m.template block<3,1>(0,3)=c.template segment<3>(3); m.template block<3,1>(0,4)=c.template head<3>(); m(3,4)=c(9); return m; }
  template<class S> static Mat<S,H,1> hom(const Mat<S,P,1>& p){ Mat<S,H,1> h; h<<p(0),p(1),p(2),S(0.0),S(1.0); return h; }
};
template<int N> struct Rnt { template<class S,class X> static S rotsq(const X&){ return S(0.0); } enum{A=N+1}; template<class S,class X> static Mat<S,A> alg(const X& t){ return hat<S>(t); } static const char* nm(){ static std::string s="R"+std::to_string(N); return s.c_str(); } enum{H=N+1,P=N,DoF=N,Rep=N};
  template<class S> using G=manif::Rn<S,N>; template<class S> using T=manif::RnTangent<S,N>;
  template<class R> static G<typename R::S> make(R& rec,const std::string& p,int w){ typedef typename R::S S; Mat<S,N,1> c; for(int i=0;i<N;i++) c(i)=rec.var(p+"x"+std::to_string(i),WV[w][i%3]+0.125*i); return G<S>(c); }
  template<class R> static T<typename R::S> maket(R& rec,const std::string& p,int w){ typedef typename R::S S; Mat<S,N,1> c; for(int i=0;i<N;i++) c(i)=rec.var(p+"t"+std::to_string(i),WW[w][i%3]-0.25*i); return T<S>(c); }
  template<class S,class X> static Mat<S,H> M(const X& g){ Mat<S,H> m=Mat<S,H>::Identity(); for(int i=0;i<N;i++) m(i,N)=g.coeffs()(i); return m; }
  template<class S,class X> static Mat<S,H> hat(const X& t){ Mat<S,H> m=Mat<S,H>::Zero(); for(int i=0;i<N;i++) m(i,N)=t.coeffs()(i); return m; }
  template<class S> static Mat<S,H,1> hom(const Mat<S,P,1>& p){ Mat<S,H,1> h; for(int i=0;i<N;i++) h(i)=p(i); h(N)=S(1.0); return h; }
};
typedef Rnt<1> R1t; typedef Rnt<3> R3t; typedef Rnt<5> R5t;

template<class R,int N> Mat<typename R::S,N,1> vecn(R& rec,const std::string& p,int w){ Mat<typename R::S,N,1> v; for(int i=0;i<N;i++) v(i)=rec.var(p+std::to_string(i), WV[w][i%3]*(1+i/3)); return v; }
// hypothesis: rotation magnitude of a tangent below pi (injectivity radius / the property's stated domain)
template<class Tg,class R,class T> void assume_rot_below_pi(R& rec, const T& t){ typedef typename R::S S; S r=Tg::template rotsq<S>(t); if(!(Tg::DoF==Tg::P && Tg::H==Tg::P+1 && Tg::Rep==Tg::P)) rec.assume(r, 0, S(9.869604)); } // 9.869604 < pi^2
} // namespace gx
