// symx: symbolic real scalar. Instantiating manif's templates over sym::Real
// records every arithmetic operation the library performs in a hash-consed DAG
// and every comparison as a branch decision. Each value also carries a concrete
// witness (concolic execution). See /verif/DESIGN.md section 3.1.
#pragma once
#include <vector>
#include <string>
#include <map>
#include <tuple>
#include <cmath>
#include <cstdio>
#include <cstdlib>
#include <stdexcept>
#include <sstream>
#include <limits>
#include <iostream>
namespace sym {
enum Op { CONST, VAR, ADD, SUB, MUL, DIV, NEG, SIN, COS, TAN, ASIN, ACOS, ATAN, ATAN2, SQRT, EXP, LOG, CBRT, ROUND, ABS };
inline const char* opname(Op o){ static const char* n[]={"const","var","add","sub","mul","div","neg","sin","cos","tan","asin","acos","atan","atan2","sqrt","exp","log","cbrt","round","abs"}; return n[o]; }
struct Node { Op op; int a, b; double c; std::string name; double val; };
struct Decision { int a; int cmp; int b; bool taken; }; // cmp: 0 '<', 1 '<=', 2 '='
struct PathLimit : std::runtime_error { PathLimit(): std::runtime_error("path decision limit") {} };
struct Ctx {
  std::vector<Node> nodes;
  std::map<std::tuple<int,int,int,double>, int> cse;
  std::map<std::string,int> vars;
  std::vector<int> varorder;
  // path state
  std::vector<bool> prefix;        // decisions to follow
  std::vector<Decision> pc;        // recorded decisions of the current path
  std::map<std::tuple<int,int,int>,bool> seen; // repeated identical condition reuses its decision
  size_t pos = 0;
  size_t max_decisions = 64;
  bool poison_read = false;        // a poison symbol took part in arithmetic
  double eps_value = -1.0; double eps_sqrt_value = -1.0;         // value of Constants<Scalar>::eps (set by harness.h)
  int force_eps = 0;               // 1: comparisons against eps are forced to the "quantity is large" outcome and not recorded (TRUNC: obtain the generic-branch formula)
  int mk(Op op, int a, int b, double c, double val, const std::string& name="") {
    auto key = std::make_tuple((int)op, a, b, c);
    if (op != VAR) { auto it = cse.find(key); if (it != cse.end()) return it->second; }
    nodes.push_back(Node{op,a,b,c,name,val});
    int id = (int)nodes.size()-1;
    if (op != VAR) cse[key] = id;
    return id;
  }
  void reset_path(const std::vector<bool>& pre);
  void reset_all(){ nodes.clear(); cse.clear(); vars.clear(); varorder.clear(); prefix.clear(); pc.clear(); seen.clear(); pos=0; poison_read=false; }
};
inline Ctx& ctx() { static Ctx c; return c; }
// Values that leave the symbolic scalar through a built-in float (static_cast<float>(x) inside the library) and come back
// through Real(float): the float's bit pattern is remembered together with the node of the ROUNDED symbolic value, so the
// narrowing stays visible to the solver (x*(1+d), |d| <= 2^-24) instead of silently concretising x to its witness.
inline std::map<float,int>& float_shadow(){ static std::map<float,int> m; return m; }
inline std::vector<int>& rnd_log(){ static std::vector<int> v; return v; }   // rounding variables touched by the current path
inline double lo_unit_roundoff(){ return 5.9604644775390625e-08; }          // 2^-24
struct Real;
inline Real rnd(const Real& x);
inline void Ctx::reset_path(const std::vector<bool>& pre){ prefix=pre; pc.clear(); seen.clear(); pos=0; float_shadow().clear(); rnd_log().clear(); }
struct Real {
  int id;
  Real() : id(ctx().mk(CONST,-1,-1,0.0,0.0)) {}
  Real(double v) : id(ctx().mk(CONST,-1,-1,v,v)) {}
  Real(float v) : id(-1) { auto it=float_shadow().find(v); if(it!=float_shadow().end()) id=it->second; else id=ctx().mk(CONST,-1,-1,(double)v,(double)v); }
  Real(int v) : Real((double)v) {}
  Real(long v) : Real((double)v) {}
  Real(long long v) : Real((double)v) {}
  Real(unsigned v) : Real((double)v) {}
  Real(unsigned long v) : Real((double)v) {}
  Real(unsigned long long v) : Real((double)v) {}
  static Real var(const std::string& n, double witness) {
    auto& C = ctx(); auto it = C.vars.find(n);
    Real r(0.0);
    if (it != C.vars.end()) { r.id = it->second; return r; }
    r.id = C.mk(VAR,-1,-1,0,witness,n); C.vars[n]=r.id; C.varorder.push_back(r.id); return r;
  }
  static Real from(int id){ Real r(0.0); r.id=id; return r; }
  double val() const { return ctx().nodes[id].val; }
  bool isConst() const { return ctx().nodes[id].op==CONST; }
  explicit operator double() const { return val(); }
  explicit operator float() const;
  explicit operator int() const { return (int)val(); }
  explicit operator long() const { return (long)val(); }
  Real& operator+=(const Real& o);
  Real& operator-=(const Real& o);
  Real& operator*=(const Real& o);
  Real& operator/=(const Real& o);
};
// exactness tests for constant folding: fold only when the double result is the
// exact real result (error-free transformations), otherwise keep the operation
// symbolic over the exact dyadic constants.
inline bool exact_add(double x,double y,double s){ double bb=s-x; double e=(x-(s-bb))+(y-bb); return std::isfinite(s) && e==0.0; }
inline bool exact_mul(double x,double y,double p){ return std::isfinite(p) && std::fma(x,y,-p)==0.0 && (p!=0.0 || x==0.0 || y==0.0); }
inline bool exact_div(double x,double y,double q){ return y!=0.0 && std::isfinite(q) && std::fma(q,y,-x)==0.0 && (q!=0.0 || x==0.0); }
inline Real bin(Op op, const Real& a, const Real& b, double v) {
  auto& C = ctx();
  if (a.isConst() && b.isConst()) {
    double x=a.val(), y=b.val();
    if ((op==ADD && exact_add(x,y,v)) || (op==SUB && exact_add(x,-y,v)) || (op==MUL && exact_mul(x,y,v)) || (op==DIV && exact_div(x,y,v))) return Real(v);
  }
  if (op==ADD) { if (a.isConst() && a.val()==0) return b; if (b.isConst() && b.val()==0) return a; }
  if (op==SUB) { if (b.isConst() && b.val()==0) return a; if (a.id==b.id) return Real(0.0); }
  if (op==MUL) { if (a.isConst() && a.val()==1) return b; if (b.isConst() && b.val()==1) return a;
                 if ((a.isConst() && a.val()==0)||(b.isConst() && b.val()==0)) return Real(0.0); }
  if (op==DIV) { if (b.isConst() && b.val()==1) return a; }
  if (op==SUB && a.isConst() && a.val()==0) { // 0 - b = -b
    if (C.nodes[b.id].op==NEG) return Real::from(C.nodes[b.id].a);
    return Real::from(C.mk(NEG, b.id, -1, 0, v));
  }
  if (op==MUL || op==DIV) { // pull negations out: canonical sign
    bool na = C.nodes[a.id].op==NEG, nb = C.nodes[b.id].op==NEG;
    if (na || nb) {
      Real aa = na ? Real::from(C.nodes[a.id].a) : a; Real bb = nb ? Real::from(C.nodes[b.id].a) : b;
      Real r = bin(op, aa, bb, (na!=nb)? -v : v);
      if (na!=nb) { if (r.isConst()) return Real(v); return Real::from(C.mk(NEG, r.id, -1, 0, v)); }
      return r;
    }
  }
  if ((op==MUL || op==ADD) && a.id > b.id) return Real::from(C.mk(op,b.id,a.id,0,v)); // commutative canonical order
  return Real::from(C.mk(op,a.id,b.id,0,v));
}
inline Real un(Op op, const Real& a, double v) {
  if (op==NEG) { if (a.isConst()) return Real(v); if (ctx().nodes[a.id].op==NEG) return Real::from(ctx().nodes[a.id].a); }
  else if (a.isConst()) {
    double x=a.val();
    // fold only exactly representable results
    if ((op==SIN||op==TAN||op==ASIN||op==ATAN) && x==0) return Real(0.0);
    if ((op==COS||op==EXP) && x==0) return Real(1.0);
    if (op==SQRT) { double r=std::sqrt(x); if (r*r==x && exact_mul(r,r,x)) return Real(r); }
  }
  return Real::from(ctx().mk(op,a.id,-1,0,v));
}
inline Real operator+(const Real& a, const Real& b){ return bin(ADD,a,b,a.val()+b.val()); }
inline Real operator-(const Real& a, const Real& b){ return bin(SUB,a,b,a.val()-b.val()); }
inline Real operator*(const Real& a, const Real& b){ return bin(MUL,a,b,a.val()*b.val()); }
inline Real operator/(const Real& a, const Real& b){ return bin(DIV,a,b,a.val()/b.val()); }
inline Real operator-(const Real& a){ return un(NEG,a,-a.val()); }
inline Real operator+(const Real& a){ return a; }
inline Real& Real::operator+=(const Real& o){ *this = *this + o; return *this; }
inline Real& Real::operator-=(const Real& o){ *this = *this - o; return *this; }
inline Real& Real::operator*=(const Real& o){ *this = *this * o; return *this; }
inline Real& Real::operator/=(const Real& o){ *this = *this / o; return *this; }
inline Real sin(const Real& a){ return un(SIN,a,std::sin(a.val())); }
inline Real cos(const Real& a){ return un(COS,a,std::cos(a.val())); }
inline Real tan(const Real& a){ return un(TAN,a,std::tan(a.val())); }
inline Real asin(const Real& a){ return un(ASIN,a,std::asin(a.val())); }
inline Real acos(const Real& a){ return un(ACOS,a,std::acos(a.val())); }
inline Real atan(const Real& a){ return un(ATAN,a,std::atan(a.val())); }
inline Real sqrt(const Real& a){ return un(SQRT,a,std::sqrt(a.val())); }
inline Real cbrt(const Real& a){ return un(CBRT,a,std::cbrt(a.val())); }
inline Real exp(const Real& a){ return un(EXP,a,std::exp(a.val())); }
inline Real log(const Real& a){ return un(LOG,a,std::log(a.val())); }
inline Real atan2(const Real& a, const Real& b){ return bin(ATAN2,a,b,std::atan2(a.val(),b.val())); }
// rounding to a narrower format (cast<>): an uninterpreted node with |round(x)-x| <= u|x|
inline Real round_to(const Real& a, int mant_bits){ if (a.isConst()) return Real((double)(float)a.val()); return Real::from(ctx().mk(ROUND,a.id,mant_bits,0,(double)(float)a.val())); }
// rounding to the single-precision format: exact value times (1 + d), one variable d per rounded node (standard model)
inline Real rnd(const Real& x){
  if (x.isConst()) return Real((double)(float)x.val());
  double xr=(double)(float)x.val(); double dw = x.val()!=0.0 ? xr/x.val()-1.0 : 0.0;
  Real d = Real::var("rnd_"+std::to_string(x.id), dw);
  rnd_log().push_back(d.id);
  return x*(Real(1.0)+d);
}
inline Real::operator float() const { float f=(float)val(); if(!isConst()){ Real r=rnd(*this); float_shadow()[f]=r.id; } return f; }
// branching
inline bool decide(int a, int cmp, int b, bool witness) {
  auto& C = ctx();
  auto key = std::make_tuple(a,cmp,b);
  auto it = C.seen.find(key);
  if (it != C.seen.end()) return it->second;
  // complementary condition already decided? (a<b) true => (b<=a) false etc.
  auto it2 = C.seen.find(std::make_tuple(b, cmp==0?1:(cmp==1?0:2), a));
  if (cmp!=2 && it2 != C.seen.end()) { bool d = !it2->second; C.seen[key]=d; return d; }
  bool d;
  if (C.pos < C.prefix.size()) d = C.prefix[C.pos]; else d = witness;
  C.pos++;
  if (C.pos > C.max_decisions) throw PathLimit();
  C.pc.push_back(Decision{a,cmp,b,d}); C.seen[key]=d;
  return d;
}
inline bool cmp(int op, const Real& a, const Real& b, bool w) {
  if (a.isConst() && b.isConst()) return w;
  if (ctx().force_eps && op!=2) {
    if (b.isConst() && (b.val()==ctx().eps_value || b.val()==ctx().eps_sqrt_value)) return false;   // x < eps, x <= eps  -> "x is large"
    if (a.isConst() && (a.val()==ctx().eps_value || a.val()==ctx().eps_sqrt_value)) return true;    // eps < x, eps <= x
  }
  if (a.id==b.id) return op!=0; // x<x false, x<=x true, x==x true
  return decide(a.id, op, b.id, w);
}
inline bool operator<(const Real& a, const Real& b){ return cmp(0,a,b,a.val()<b.val()); }
inline bool operator>(const Real& a, const Real& b){ return cmp(0,b,a,b.val()<a.val()); }
inline bool operator<=(const Real& a, const Real& b){ return cmp(1,a,b,a.val()<=b.val()); }
inline bool operator>=(const Real& a, const Real& b){ return cmp(1,b,a,b.val()<=a.val()); }
inline bool operator==(const Real& a, const Real& b){ return cmp(2,a,b,a.val()==b.val()); }
inline bool operator!=(const Real& a, const Real& b){ return !(a==b); }
// |a| is a node of its own (no branch): canonicalised on the argument without its sign
inline Real abs(const Real& a){ if (a.isConst()) return Real(std::fabs(a.val())); int arg=a.id; if (ctx().nodes[arg].op==NEG) arg=ctx().nodes[arg].a; if (ctx().nodes[arg].op==ABS) return Real::from(arg); return Real::from(ctx().mk(ABS,arg,-1,0,std::fabs(a.val()))); }
inline Real fabs(const Real& a){ return abs(a); }
inline Real abs2(const Real& a){ return a*a; }
inline Real min(const Real& a, const Real& b){ return (b<a)?b:a; }
inline Real max(const Real& a, const Real& b){ return (a<b)?b:a; }
inline Real pow(const Real& a, int n){ Real r(1.0); for(int i=0;i<n;i++) r=r*a; return r; }
inline Real pow(const Real& a, const Real& e){ if (e.isConst() && std::floor(e.val())==e.val() && e.val()>=0 && e.val()<=16) return pow(a,(int)e.val()); throw std::logic_error("sym::pow with non-integer exponent"); }
inline bool isfinite(const Real&){ return true; }
inline bool isnan(const Real&){ return false; }
inline bool isinf(const Real&){ return false; }
inline Real floor(const Real& a){ if (a.isConst()) return Real(std::floor(a.val())); throw std::logic_error("sym::floor of symbolic value"); }
inline Real ceil(const Real& a){ if (a.isConst()) return Real(std::ceil(a.val())); throw std::logic_error("sym::ceil of symbolic value"); }
inline std::ostream& operator<<(std::ostream& o, const Real& r){ return o<<"n"<<r.id; }
inline double value_of(const Real& r){ return r.val(); }
inline double value_of(double r){ return r; }
inline double value_of(float r){ return r; }
} // namespace sym
#include <Eigen/Core>
namespace Eigen {
template<> struct NumTraits<sym::Real> : GenericNumTraits<sym::Real> {
  typedef sym::Real Real; typedef sym::Real NonInteger; typedef sym::Real Nested; typedef sym::Real Literal;
  enum { IsComplex=0, IsInteger=0, IsSigned=1, RequireInitialization=1, ReadCost=1, AddCost=3, MulCost=3 };
#ifdef SYM_FLOAT_PROFILE
  static inline Real epsilon(){ return Real((double)std::numeric_limits<float>::epsilon()); }
  static inline Real dummy_precision(){ return Real(1e-5); }
  static inline int digits10(){ return 6; }
#else
  static inline Real epsilon(){ return Real(std::numeric_limits<double>::epsilon()); }
  static inline Real dummy_precision(){ return Real(1e-12); }
  static inline int digits10(){ return 15; }
#endif
  static inline Real highest(){ return Real(std::numeric_limits<double>::max()); }
  static inline Real lowest(){ return Real(-std::numeric_limits<double>::max()); }
};
}
