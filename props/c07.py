from .common import *
import re
EXPL = 'EXACT: Generator(i) equals the documented basis matrix, hat = sum t_i G_i, Vee(hat t)=t, hat(Bracket(a,b)) = [hat a, hat b], antisymmetry, Jacobi, bilinearity, inner = Frobenius product, W symmetric, a^T W a >= |a|^2 (positive definite), weightedNorm^2 = squaredWeightedNorm; the same inner-product claims in a process that used the InnerWeights of every other tangent type first (separate binary per group: no dependence on the call history); Generator(i) raises for the out-of-range indices -1, DoF, DoF+1, INT_MAX, INT_MIN; symbolic tangents, decided per entry by z3 over the DAG of the real templates.' + ' Generator(i): for every 32-bit index value the LLVM-IR control flow of the real function raises iff i >= DoF (bit-vector SMT).'
def run(tier, a=None):
    specs = [{'src': 'h_c07.cpp', 'defs': ['TAG=' + t]} for t in tags(tier)]
    specs += [{'src': 'h_c07.cpp', 'defs': ['TAG=Bnd<R1t,SO3t,SE2t>', 'ONLY_GENIDX'], 'filter': 'c07_genidx.*'}, {'src': 'h_c07.cpp', 'defs': ['TAG=Bnd<SE3t,R3t>', 'ONLY_GENIDX'], 'filter': 'c07_genidx.*'}]
    specs += [{'src': 'h_c07.cpp', 'defs': ['TAG=' + t, 'HISTORY'], 'filter': 'c07_inner_history.*'} for t in tags(tier)]
    import props.common as pc
    _o = pc.opts
    pc.opts = lambda tier, a=None: dict(_o(tier, a), approx_ok=False)
    from vlib import runner, build, irx
    import subprocess, json, re as _re
    res = runner.Result('C07', tier); res.bounds = ['no magnitude bound (real arithmetic)', 'groups: ' + ','.join(tags(tier)), 'generator index: all 2^32 values of the index by bit-vector SMT on the LLVM IR of Generator(i) for SO2, SE2, SO3, SE3, SE_2_3, SGal3, R3 (Bundle: concrete indices -1, DoF, DoF+1, INT_MAX, INT_MIN, 0, DoF-1)']
    if a is not None and a.only:
        specs = [s_ for s_ in specs if _re.search(a.only, s_['src'] + ':' + ','.join(s_['defs']))]
    o = pc.opts(tier, a)
    out = runner.run_sym(res, specs, o); runner.finish_sym(res, *out, o)
    if a is None or not a.only or _re.search(a.only, 'irx'):
        index_dispatch(res, tier)
    runner.write_evidence(res, 'proof', EXPL, ASSUME, 'python3-vt /verif/check.py C07 --tier %s' % tier, TRUSTED + ['clang++-14 -O1 as producer of the IR of Generator(i); z3 QF_BV on the CFG encoding (vlib/irx.py dispatch_formulas)'])
    return runner.conclude(res)

DOF = {'SO2': 1, 'SE2': 3, 'SO3': 3, 'SE3': 6, 'SE_2_3': 9, 'SGal3': 10, 'R3': 3, 'Bundle': 10}
def index_dispatch(res, tier):
    import os, subprocess, json
    from vlib import runner, build, irx
    known = runner.load_known('C07')
    wd = os.path.join(build.WORK, 'run', 'C07'); os.makedirs(wd, exist_ok=True)
    ll = os.path.join(wd, 'entries.ll')
    r = subprocess.run(['clang++-14', '-std=c++11', '-O1', '-DNDEBUG', build.GUARD, '-DEIGEN_DONT_VECTORIZE', '-fno-vectorize', '-fno-slp-vectorize', '-fno-unroll-loops', '-S', '-emit-llvm',
                        '-I' + os.path.join(build.REPO, 'include'), '-I' + os.path.join(build.REPO, 'external/tl'), '-isystem', '/usr/include/eigen3', os.path.join(build.VERIF, 'harness/c14/entries.cpp'), '-o', ll], capture_output=True, text=True)
    if r.returncode != 0:
        res.errors.append({'what': 'IR for the generator wrappers does not build', 'diag': r.stderr[-1500:]}); return
    txt = open(ll).read()
    for g, dof in DOF.items():
        try: rf, tf, decls = irx.dispatch_formulas(txt, '@g_' + g)
        except Exception as e:
            res.undecided.append('index dispatch %s: %s' % (g, e)); res.obligations += 2; continue
        qs = [('out-of-range index returns without raising', '(and (bvuge idx (_ bv%d 32)) %s)' % (dof, tf), 'unsat'), ('in-range index raises', '(and (bvult idx (_ bv%d 32)) %s)' % (dof, rf), 'unsat'), ('vacuity: some in-range index returns', '(and (bvult idx (_ bv%d 32)) %s)' % (dof, tf), 'sat')]
        for name, phi, expect in qs:
            q = '(set-logic QF_BV)\n(set-option :produce-models true)\n(declare-fun idx () (_ BitVec 32))\n' + '\n'.join(decls) + '\n(assert %s)\n(check-sat)\n(get-value (idx))\n' % phi
            qf = os.path.join(wd, 'q_%s.smt2' % g); open(qf, 'w').write(q)
            o = subprocess.run(['z3', '-T:30', qf], capture_output=True, text=True).stdout
            ans = o.strip().split('\n')[0] if o.strip() else 'noanswer'
            res.obligations += 1; res.solver['queries'] += 1
            if ans == expect:
                res.discharged += 1
                if len(res.samples) < 8: res.samples.append({'irx': g, 'claim': name, 'solver': 'z3 QF_BV', 'answer': ans})
                continue
            key = 'irx:%s:%s' % (g, name)
            if expect == 'sat' or ans not in ('sat',):
                res.undecided.append('%s: solver answered %s' % (key, ans)); continue
            m = re.search(r'#x([0-9a-fA-F]{8})', o); idx = int(m.group(1), 16) if m else None
            # replay on the real code
            rb = os.path.join(wd, 'gen_replay_' + build.tree_hash())
            if not os.path.exists(rb):
                subprocess.run(['g++', '-std=c++11', '-O1', '-w', '-I' + os.path.join(build.REPO, 'include'), '-I' + os.path.join(build.REPO, 'external/tl'), '-isystem', '/usr/include/eigen3', os.path.join(build.VERIF, 'harness/c14/gen_replay.cpp'), '-o', rb], capture_output=True)
            sidx = idx - (1 << 32) if idx is not None and idx >= (1 << 31) else idx
            rr = subprocess.run([rb, g, str(sidx)], capture_output=True, text=True).stdout.strip() if idx is not None and os.path.exists(rb) else ''
            bad = (rr.startswith('returned') and name.startswith('out-of-range')) or (rr.startswith('raised') and name.startswith('in-range'))
            if not bad:
                res.undecided.append('%s: abstraction too coarse (model index %s, real code: %s)' % (key, sidx, rr)); continue
            kf = runner.match_known(known, key)
            if kf: res.known.append((key, kf.get('what', ''))); continue
            d = os.path.join(build.VERIF, 'replay', 'C07'); os.makedirs(d, exist_ok=True)
            fn = os.path.join(d, 'irx_%s_%s.json' % (g, name.split()[0])); json.dump({'property': 'C07', 'key': key, 'entry': 'Generator', 'claim': name, 'inputs': {'group': g, 'index': sidx}, 'replay': {'cmd': '%s %s %s' % (rb, g, sidx), 'output': rr}}, open(fn, 'w'), indent=1)
            res.violations.append((key, fn))
    res.functions.add('irx: Generator(i) index dispatch for ' + ','.join(DOF))
