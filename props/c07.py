from .common import *
def run(tier, a=None):
    specs = [{'src': 'h_c07.cpp', 'defs': ['TAG=' + t]} for t in tags(tier)]
    return simple('C07', tier, a, specs,
        'EXACT: Generator(i) equals the documented basis matrix, hat = sum t_i G_i, Vee(hat t)=t, hat(Bracket(a,b)) = [hat a, hat b], antisymmetry, Jacobi, bilinearity, inner = Frobenius product, W symmetric, a^T W a >= |a|^2 (positive definite), weightedNorm^2 = squaredWeightedNorm; symbolic tangents, decided per entry by z3 over the DAG of the real templates.',
        ['no magnitude bound (real arithmetic)', 'groups: ' + ','.join(tags(tier)), 'generator index behaviour for out-of-range indices: see irx part'])
