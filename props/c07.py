from .common import *
def run(tier, a=None):
    specs = [{'src': 'h_c07.cpp', 'defs': ['TAG=' + t]} for t in tags(tier)]
    specs += [{'src': 'h_c07.cpp', 'defs': ['TAG=Bnd<R1t,SO3t,SE2t>', 'ONLY_GENIDX'], 'filter': 'c07_genidx.*'}, {'src': 'h_c07.cpp', 'defs': ['TAG=Bnd<SE3t,R3t>', 'ONLY_GENIDX'], 'filter': 'c07_genidx.*'}]
    import props.common as pc
    _o = pc.opts
    pc.opts = lambda tier, a=None: dict(_o(tier, a), approx_ok=False)
    return simple('C07', tier, a, specs,
        'EXACT: Generator(i) equals the documented basis matrix, hat = sum t_i G_i, Vee(hat t)=t, hat(Bracket(a,b)) = [hat a, hat b], antisymmetry, Jacobi, bilinearity, inner = Frobenius product, W symmetric, a^T W a >= |a|^2 (positive definite), weightedNorm^2 = squaredWeightedNorm; Generator(i) raises for the out-of-range indices -1, DoF, DoF+1, INT_MAX, INT_MIN; symbolic tangents, decided per entry by z3 over the DAG of the real templates.',
        ['no magnitude bound (real arithmetic)', 'groups: ' + ','.join(tags(tier)), 'generator index behaviour: indices -1, DoF, DoF+1, INT_MAX, INT_MIN must raise and 0, DoF-1 must not (concrete indices; not all 2^32 values)'])
