from .common import *
def run(tier, a=None):
    specs = [{'src': 'h_c01.cpp', 'defs': ['TAG=' + t]} for t in tags(tier)]
    import props.common as pc
    _o = pc.opts
    pc.opts = lambda tier, a=None: dict(_o(tier, a), approx_ok=False)
    return simple('C01', tier, a, specs,
        'EXACT: for symbolic unit X, Y and point p, every entry of the documented homogeneous matrix of the coefficients returned by compose/inverse/Identity/act equals the matrix product / identity / M(X)(p;1); decided per entry by solver-checked stepwise normalisation over the DAG recorded from the real templates.',
        ['no magnitude bound (real arithmetic)', 'paths per call <= 64 (none truncated)', 'groups: ' + ','.join(tags(tier))])
