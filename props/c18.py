from .common import *
def run(tier, a=None):
    tg = ['SO2t', 'SE2t', 'SO3t']
    specs = [{'src': 'h_c18.cpp', 'defs': ['TAG=' + t], 'filter': 'c18_(refl|negq).*', 'maxpaths': 256} for t in tg + ([] if tier == 'quick' else ['SE3t'])]
    specs += [{'src': 'h_c18.cpp', 'defs': ['TAG=SO2t'], 'filter': 'c18_(sym|near|far|tangent|tangent_rel).*', 'maxpaths': 512}]
    specs += [{'src': 'h_c18.cpp', 'defs': ['TAG=R3t'], 'filter': 'c18_far_large.*', 'maxpaths': 512}]
    if tier != 'quick':
        specs += [{'src': 'h_c18.cpp', 'defs': ['TAG=' + t], 'filter': 'c18_(sym|near|far|tangent|tangent_rel).*', 'maxpaths': 2048} for t in ('SE2t', 'R3t')]
    import props.common as pc
    _o = pc.opts
    pc.opts = lambda tier, a=None: dict(_o(tier, a), approx_ok=False, structural=True)
    return simple('C18', tier, a, specs,
        'isApprox / operator== return booleans, concrete on every enumerated path; a path on which the returned value differs from the expected one must be infeasible (solver verdict on the recorded path condition). Claims: X.isApprox(X,eps) and X==X for every symbolic unit X and eps>0; the same for the two coefficient vectors q,-q of one transformation; symmetry; isApprox(X,X(+)d,eps) holds when every |d_i|<=eps/2 and fails when some d_i>=2eps; tangents: reflexive, symmetric, absolute test against zero equals max|a_i|<=eps, relative test equals |a-b|^2<=eps^2 min(|a|^2,|b|^2) when both norms are >= eps.',
        ['exact real arithmetic: the rounding residual of X(-)X at large coordinates (known SE2/SGal3 issue, DESIGN section 5 item 10) is a COND question and outside this EXACT check', 'near/far: X at the exact rational point K0, eps<=0.01, |d_i|<=0.5', 'reflexivity / q vs -q: SO2, SE2, SO3 (+SE3 thorough); symmetry, near/far threshold and tangent relations: SO2 (quick); far threshold at coordinates 1e3..1e9: R3, +SE2, R3 (thorough) -- Eigen isZero/isApprox branch per coefficient, so path counts grow as 2^DoF'])
