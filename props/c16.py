from .common import *
def run(tier, a=None):
    tg = ['SO2t', 'SO3t', 'R3t'] + ([] if tier == 'quick' else ['SE2t', 'SE3t'])
    specs = [{'src': 'h_c16.cpp', 'defs': ['TAG=' + t], 'maxpaths': 128} for t in tg]
    return simple('C16', tier, a, specs,
        'Decided: every averaging routine raises on an empty container (no non-raising path), returns a single element unchanged, and for N identical symbolic points stops at its first stopping test and returns that point (as a transformation), on every feasible path; the per-point lemmas of left equivariance (gX)(-)(gm) = X(-)m, (gm)(+)tau = g(m(+)tau), between(gm,gX)=between(m,X), so the iterate sequence of left-translated inputs is the translated iterate sequence with identical branch decisions for any N and any iteration count. NOT decided (outside the claim): that the stopping tolerance is reached within the 20-iteration budget, independence of the limit from the starting point / order on non-commutative groups, right equivariance: these are contraction arguments over an unbounded nonlinear iteration and are not an encodable bounded computation.',
        ['N identical points: N=3, iteration budget 3 (the first stopping test already exits on every feasible path)', 'left-equivariance lemmas: base point m at the exact rational point K0', 'groups: ' + ','.join(tg)])
