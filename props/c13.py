from .common import *
def run(tier, a=None):
    specs = [{'src': 'h_c13.cpp', 'defs': [], 'filter': 'c13_(so2|se2|so3|se3|se23|sgal3|normalize).*'}]
    for vm in (0, 1, 2):
        specs.append({'src': 'h_c13.cpp', 'defs': ['VALID_MODE=%d' % vm], 'mode': 'symdbg', 'filter': 'c13_valid.*', 'label': 'valid-debug-%d' % vm})
        specs.append({'src': 'h_c13.cpp', 'defs': ['VALID_MODE=%d' % vm], 'mode': 'sym', 'filter': 'c13_valid.*', 'label': 'valid-ndebug-%d' % vm})
    import props.common as pc
    _o = pc.opts
    pc.opts = lambda tier, a=None: dict(_o(tier, a), approx_ok=False)
    return simple('C13', tier, a, specs,
        'EXACT with symbolic constructor arguments: SO2(angle), SO2(re,im), SE2 (x,y,angle / x,y,re,im / translation+complex / Eigen isometry), SO3 (quaternion / x,y,z,w / roll-pitch-yaw incl. a gimbal configuration), SE3 (translation+quaternion / +SO3 / x,y,z,r,p,y / Eigen isometry through all four branches of the matrix->quaternion conversion), SE_2_3, SGal3: accessors return the supplied quantities, rotation() equals the documented matrix (Rz(yaw)Ry(pitch)Rx(roll)), is orthonormal with determinant 1, transform()/isometry() agree, feeding accessors back reproduces the element, cast<Scalar>() reproduces the transformation; normalize() yields exactly unit data for any non-zero input. Validation: in the assertion-enabled build every constructor path that raises is infeasible for data within the threshold, every non-raising path is infeasible for data outside it; with NDEBUG no path raises.',
        ['cast<> is exercised with the same (symbolic) scalar: the conversion code path, not the rounding, is checked', 'angle()-based round trips for angles in (-pi, pi]', 'validation thresholds: inside = |norm-1| <= eps/2, outside = |norm-1| >= eps; rotation data = symbolic positive scale times a fixed exact unit direction (the test depends on the norm only)'])
