from .common import *
import os, subprocess
from vlib import runner, build
def run(tier, a=None):
    tg = (['SO2t', 'SE2t', 'SO3t', 'SE3t', 'R3t'] if tier == 'quick' else ALL_TAGS)
    specs = [{'src': 'h_c10.cpp', 'defs': ['TAG=' + t], 'maxpaths': 256} for t in tg]
    specs += [{'src': 'h_c10.cpp', 'defs': ['TAG=' + t, 'OFF=4'], 'maxpaths': 256} for t in (tg if tier != 'quick' else ['SE2t', 'SE3t'])]
    specs += [{'src': 'h_c10.cpp', 'defs': ['TAG=' + t, 'HAS_ASSO3'], 'filter': 'c10_subviews.*'} for t in (['SE3t'] if tier == 'quick' else ['SE3t', 'SE23t', 'SGal3t'])]
    res = runner.Result('C10', tier)
    res.bounds = ['guard zone of 3 (aligned) / 4 (shifted by one scalar) poison cells on each side of every user buffer', 'groups: ' + ','.join(tg)]
    if a is not None and a.only:
        import re
        specs = [s for s in specs if re.search(a.only, s['src'] + ':' + ','.join(s['defs']))]
    o = dict(opts(tier, a), structural=True)
    out = runner.run_sym(res, specs, o); runner.finish_sym(res, *out, o)
    # the same symbolic run under AddressSanitizer: reads or writes outside the std::vector backing the user buffer abort the run
    at = [(s['src'], s['defs'], 'symasan') for s in specs[:len(tg)]]  # one ASan run per group
    built = build.build_all(at)
    asan_runs = 0
    for (b, err, secs), s in zip(built, specs):
        if b is None:
            res.errors.append({'what': 'asan harness does not compile', 'diag': err[-1500:]}); continue
        fn = os.path.join(build.WORK, 'run', 'C10', os.path.basename(b) + '.dag')
        r = subprocess.run([b, fn, '.*', '--maxpaths', '64'], capture_output=True, text=True, env=dict(os.environ, ASAN_OPTIONS='detect_leaks=0'))
        asan_runs += 1
        if r.returncode != 0:
            d = os.path.join(build.VERIF, 'replay', 'C10'); os.makedirs(d, exist_ok=True)
            lf = os.path.join(d, 'asan_' + '_'.join(s['defs']).replace('=', '-') + '.log'); open(lf, 'w').write(r.stdout[-4000:] + r.stderr[-8000:])
            if 'AddressSanitizer' in r.stderr: res.violations.append(('asan:' + ','.join(s['defs']), lf))
            else: res.errors.append({'what': 'asan run failed', 'diag': r.stderr[-1500:]})
    res.extra['asan_runs'] = asan_runs
    runner.write_evidence(res, 'proof',
        'Every operation executed through Eigen::Map / Eigen::Map<const> views placed inside poisoned buffers yields the same recorded computation (same DAG nodes / canonical forms) as with owning operands, on every enumerated path; after every write through a mutable view (assignment families incl. copy- and move-assignment between two mutable views, after which later writes still land in the own buffer of the destination and the source buffer is untouched; setIdentity, +=, *=, coefficient write, tangent setZero/+=/-=/*=) exactly the RepSize resp. DoF viewed cells changed and every guard cell still holds its poison symbol; no result depends on a poison symbol. The same run is repeated under AddressSanitizer. Memory access patterns do not depend on values, so one symbolic run per path covers all inputs.',
        ASSUME, 'python3-vt /verif/check.py C10 --tier %s' % tier, TRUSTED + ['AddressSanitizer (clang/gcc runtime) for accesses outside the buffer object'])
    return runner.conclude(res)
