"""C19: the documented API instantiates for every group, scalar and storage kind (compile gate); forwarding is decided by C04/C09/C10."""
import os, subprocess, json, time, hashlib
from concurrent.futures import ThreadPoolExecutor
from vlib import runner, build
from .common import ASSUME, TRUSTED
NENTRY = 30
ENTRY_NAMES = {1:'inverse',2:'log/lift',3:'compose/*',4:'act',5:'adj',6:'rplus/plus/+',7:'lplus/t+X/t.plus/t.lplus/t.rplus',8:'rminus/minus/-',9:'lminus',10:'between',11:'isApprox/==',12:'transform',13:'cast<float/double>',14:'exp/retract',15:'hat/rjac/ljac/rjacinv/ljacinv/smallAdj',16:'Generator/InnerWeights/inner/norms/Vee',17:'tangent arithmetic/plus/minus/isApprox',18:'interpolate x3/smoothing_phi',19:'average_biinvariant',20:'average',21:'average_frechet_left/right',22:'decasteljau',23:'free inverse/log/lift/exp/retract',24:'free compose/between',25:'free rplus/lplus/plus',26:'free rminus/lminus/minus',27:'free act',28:'mutators (setIdentity/setRandom/=/+=/*=, tangent setZero/+=/-=/*=, free identity/random/zero)',29:'statics (Identity/Random/Zero) and free coeffs/data',30:'Bracket/bracket'}
GROUPS = [('SO2', ['GROUP=SO2', 'TANGENT=SO2Tangent']), ('SE2', ['GROUP=SE2', 'TANGENT=SE2Tangent']), ('SO3', ['GROUP=SO3', 'TANGENT=SO3Tangent']), ('SE3', ['GROUP=SE3', 'TANGENT=SE3Tangent']),
          ('SE_2_3', ['GROUP=SE_2_3', 'TANGENT=SE_2_3Tangent']), ('SGal3', ['GROUP=SGal3', 'TANGENT=SGal3Tangent']), ('R1', ['RN=1']), ('R4', ['RN=4']),
          ('Bundle<SO2,SE3,R3>', ['BUNDLE=SO2,SE3,R3']), ('Bundle<SE2,SGal3>', ['BUNDLE=SE2,SGal3'])]
def compile_one(defs):
    cmd = ['g++', '-std=c++11', '-w', '-fsyntax-only', build.GUARD] + ['-D' + d for d in defs] + ['-I' + os.path.join(build.REPO, 'include'), '-I' + os.path.join(build.REPO, 'external/tl'), '-isystem', '/usr/include/eigen3', os.path.join(build.VERIF, 'harness/c19/api.cpp')]
    r = subprocess.run(cmd, capture_output=True, text=True)
    return r.returncode == 0, r.stderr
def run(tier, a=None):
    res = runner.Result('C19', tier)
    known = runner.load_known('C19')
    groups = GROUPS if tier != 'quick' else [g for g in GROUPS if g[0] in ('SO2', 'SE2', 'SO3', 'SE3', 'SE_2_3', 'SGal3', 'R1', 'Bundle<SO2,SE3,R3>')]
    scalars = ['double', 'float']; storages = [0, 1, 2]
    cells = [(gn, gd, sc, st) for gn, gd in groups for sc in scalars for st in storages]
    def cell(c):
        gn, gd, sc, st = c
        ok, err = compile_one(gd + ['SCALAR=' + sc, 'STORAGE=%d' % st])
        if ok: return (c, [])
        bad = []
        for k in range(1, NENTRY + 1):
            ok2, err2 = compile_one(gd + ['SCALAR=' + sc, 'STORAGE=%d' % st, 'ENTRY=%d' % k])
            if not ok2:
                first = [l for l in err2.splitlines() if 'error' in l][:2]
                bad.append((k, ' | '.join(first)[:600]))
        return (c, bad)
    with ThreadPoolExecutor(16) as ex: out = list(ex.map(cell, cells))
    stn = {0: 'owning', 1: 'Map', 2: 'Map<const>'}
    programs = 0
    for (gn, gd, sc, st), bad in out:
        programs += NENTRY; res.obligations += NENTRY; res.discharged += NENTRY - len(bad)
        for k, diag in bad:
            key = 'compile:%s:%s:%s:%d:%s' % (gn, sc, stn[st], k, ENTRY_NAMES[k])
            kf = runner.match_known(known, key)
            if kf: res.known.append((key, kf.get('what', ''))); continue
            d = os.path.join(build.VERIF, 'replay', 'C19'); os.makedirs(d, exist_ok=True)
            fn = os.path.join(d, hashlib.md5(key.encode()).hexdigest()[:12] + '.json')
            json.dump({'property': 'C19', 'key': key, 'entry': 'harness/c19/api.cpp', 'claim': ENTRY_NAMES[k], 'inputs': {}, 'defs': gd + ['SCALAR=' + sc, 'STORAGE=%d' % st, 'ENTRY=%d' % k], 'diagnostic': diag,
                       'replay': {'cmd': 'g++ -std=c++11 -fsyntax-only ' + ' '.join('-D' + x for x in gd + ['SCALAR=' + sc, 'STORAGE=%d' % st, 'ENTRY=%d' % k]) + ' -I/repo/include -I/repo/external/tl -isystem /usr/include/eigen3 /verif/harness/c19/api.cpp'}}, open(fn, 'w'), indent=1)
            res.violations.append((key, fn))
    res.paths = programs; res.functions = set(ENTRY_NAMES.values())
    res.samples = [{'group': 'SE3', 'scalar': 'float', 'storage': 'Map<const>', 'entry': ENTRY_NAMES[6], 'result': 'compiles'}]
    res.extra['programs'] = programs; res.extra['disagreements_checked'] = len(res.violations) + len(res.known); res.extra['exhaustive'] = True
    res.bounds = ['matrix: %d groups x {double,float} x {owning, Map, Map<const>} x %d API entries' % (len(groups), NENTRY)]
    runner.write_evidence(res, 'other',
        'Instantiation gate: the finite matrix {API entry} x {group} x {float,double} x {owning, Map, Map<const>} of one-entry client programs is enumerated exhaustively and each is compiled (g++ -fsyntax-only) against /repo/include; a cell that does not compile is a violation whose replay artefact is the one-entry translation unit and the compiler diagnostic. This part is a compiler verdict, not a solver verdict (the symbolic encodings of C01-C18 cannot exist unless the entries instantiate over the symbolic scalar as well). The forwarding half of C19 (each alias / free function / view forwards to the canonical member) is decided by the solver-backed DAG-identity claims of C04, C09 and C10.',
        ['compilation with g++ 12, -std=c++11; linking is exercised by the harness binaries of the other checks'], 'python3-vt /verif/check.py C19 --tier %s' % tier, ['g++ 12 as the decider of instantiability'])
    return runner.conclude(res)
