import os
from vlib import runner, build

ALL_TAGS = ['SO2t', 'SE2t', 'SO3t', 'SE3t', 'SE23t', 'SGal3t', 'R1t', 'R3t', 'R5t']
QUICK_TAGS = ['SO2t', 'SE2t', 'SO3t', 'SE3t', 'R3t']

TRUSTED = ['z3 4.8.12 (qfnra-nlsat) as decider of every step lemma / claim / side obligation',
           'g++ 12 and Eigen 3.4 executing the real manif templates over the symbolic scalar sym::Real',
           'axiom instances for sqrt / sin / cos / atan2 listed under axioms_used (DESIGN section 7)',
           'real-number semantics of + - * / (floating point rounding is outside EXACT mode)']
ASSUME = ['inputs are finite reals satisfying the documented validity predicate (unit-norm rotation part)',
          'SMT-LIB total division: every divisor is separately proved non-zero on its path',
          'exceptions terminate a path; message formatting is not executed symbolically']

def opts(tier, a=None):
    return {'jobs': 2, 'procs': 16, 'per_check_ms': 20000 if tier == 'quick' else 120000, 'lemma_ms': 6000 if tier == 'quick' else 30000, 'cf_cap': 60 if tier == 'quick' else 300, 'trunc_ms': 2500 if tier == 'quick' else 20000, 'wall_cap': 300 if tier == 'quick' else 900, 'crosscheck': tier != 'quick',
            'approx_tol': 1e-7, 'nsamples': 60 if tier == 'quick' else 200, 'seed': int(os.environ.get('VERIF_SEED', '0') or 0)}

def tags(tier):
    return QUICK_TAGS if tier == 'quick' else ALL_TAGS

def simple(pid, tier, a, specs, explanation, bounds, level='proof'):
    res = runner.Result(pid, tier)
    res.bounds = bounds
    if a is not None and a.only:
        import re
        specs = [s for s in specs if re.search(a.only, s['src'] + ':' + ','.join(s['defs']))]
    o = opts(tier, a)
    out = runner.run_sym(res, specs, o)
    runner.finish_sym(res, *out, o)
    runner.write_evidence(res, level, explanation, ASSUME, 'python3-vt /verif/check.py %s --tier %s' % (pid, tier), TRUSTED)
    return runner.conclude(res)
