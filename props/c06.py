from .common2 import *
def run(tier, a=None):
    specs = [{'src': 'h_c06.cpp', 'defs': ['TAG=' + t]} for t in tags(tier)]
    specs += [{'src': 'h_c06.cpp', 'defs': ['TAG=' + t, 'ZERO_ROT'], 'filter': 'c06_(ljac_ode|adj_ode|rjac|inverses|adjexp).*'} for t in tags(tier) if not t.startswith('R')]
    tr = [{'src': 'h_trunc.cpp', 'defs': ['TAG=' + t], 'filter': 'tr_jacs.*'} for t in tags(tier) if not t.startswith('R')]
    cd = [{'src': 'h_cond.cpp', 'defs': ['TAG=' + t], 'filter': 'cond_jacs.*'} for t in ('SE2t', 'SO3t', 'SE3t')]
    import props.common as pc, props.common2 as pc2
    _o = pc.opts
    pc.opts = lambda tier, a=None: dict(_o(tier, a), nonfinite_check=True)
    pc2.opts = pc.opts
    return combined('C06', tier, a, specs, tr,
        'EXACT (generic branches, and Taylor branches at exactly zero rotation with symbolic linear parts): smallAdj(t)s = vee[hat t,hat s]; hat(Adj(X)s) M(X) = M(X) hat(s); Adj(XY)=Adj(X)Adj(Y); ljac(t)+d/ds ljac(st)|_1 = Adj(exp t) (ODE characterisation of the series, derivative via dual numbers through the real ljac); d/ds Adj(exp(st)) = smallAdj(t) Adj(exp(st)); rjac(t)=ljac(-t); rjacinv*rjac = I, ljacinv*ljac = I (rotation below pi); Adj(exp t) rjac = ljac. TRUNC: rjac/ljac/rjacinv/ljacinv on the Taylor region are within 1e-6*max(1,B) of the generic closed forms. COND-lite: on the generic branches the first-order amplification of libm rounding errors into every entry of rjac/ljac/rjacinv/ljacinv is bounded by the solver per decade of the rotation magnitude.',
        ['generic branches: no magnitude bound', 'inverse Jacobians: rotation magnitude below pi', 'Taylor region: linear components bounded by B in {1,1e6}, tolerance 1e-6*max(1,B)', 'COND-lite: amplification of libm rounding errors (2u relative on sin/cos/sqrt results) bounded by 1e-6 per decade of the rotation magnitude in (1.5e-7, 1]; refuted bounds are reported only when the double build reproduces a relative error above 1e-6 against a 60-digit evaluation', 'groups: ' + ','.join(tags(tier))], cond_specs=cd)
