from .common import *
def run(tier, a=None):
    specs = [{'src': 'h_c06.cpp', 'defs': ['TAG=' + t]} for t in tags(tier)]
    return simple('C06', tier, a, specs,
        'EXACT (generic branches): smallAdj(t)s = vee[hat t,hat s]; hat(Adj(X)s) M(X) = M(X) hat(s); Adj(XY)=Adj(X)Adj(Y); ljac(t)+d/ds ljac(st)|_1 = Adj(exp t) (ODE characterisation of the series, derivative via dual numbers through the real ljac); d/ds Adj(exp(st)) = smallAdj(t) Adj(exp(st)); rjac(t)=ljac(-t); rjacinv*rjac = I, ljacinv*ljac = I; Adj(exp t) rjac = ljac.',
        ['no magnitude bound on generic branches (real arithmetic)', 'groups: ' + ','.join(tags(tier))])
