from .common2 import *
def run(tier, a=None):
    specs = [{'src': 'h_c06.cpp', 'defs': ['TAG=' + t]} for t in tags(tier)]
    specs += [{'src': 'h_c06.cpp', 'defs': ['TAG=' + t, 'ZERO_ROT'], 'filter': 'c06_(ljac_ode|adj_ode|rjac|inverses|adjexp).*'} for t in tags(tier) if not t.startswith('R')]
    tr = [{'src': 'h_trunc.cpp', 'defs': ['TAG=' + t], 'filter': 'tr_jacs.*'} for t in tags(tier) if not t.startswith('R')]
    return combined('C06', tier, a, specs, tr,
        'EXACT (generic branches, and Taylor branches at exactly zero rotation with symbolic linear parts): smallAdj(t)s = vee[hat t,hat s]; hat(Adj(X)s) M(X) = M(X) hat(s); Adj(XY)=Adj(X)Adj(Y); ljac(t)+d/ds ljac(st)|_1 = Adj(exp t) (ODE characterisation of the series, derivative via dual numbers through the real ljac); d/ds Adj(exp(st)) = smallAdj(t) Adj(exp(st)); rjac(t)=ljac(-t); rjacinv*rjac = I, ljacinv*ljac = I (rotation below pi); Adj(exp t) rjac = ljac. TRUNC: rjac/ljac/rjacinv/ljacinv on the Taylor region are within 1e-6*max(1,B) of the generic closed forms.',
        ['generic branches: no magnitude bound', 'inverse Jacobians: rotation magnitude below pi', 'Taylor region: linear components bounded by B in {1,1e6}, tolerance 1e-6*max(1,B)', 'groups: ' + ','.join(tags(tier))])
