from .common2 import *
def run(tier, a=None):
    tg = tags(tier)
    specs = [{'src': 'h_c03.cpp', 'defs': ['TAG=' + t]} for t in tg]
    specs += [{'src': 'h_c03.cpp', 'defs': ['TAG=' + t, 'ZERO_ROT'], 'filter': 'c03_logexp.*'} for t in tg if not t.startswith('R')]
    tr = [{'src': 'h_trunc.cpp', 'defs': ['TAG=' + t], 'filter': 'tr_log.*', 'ap_prefixes': ['log(']} for t in tg if not t.startswith('R')]
    import props.common as pc, props.common2 as pc2
    _o = pc.opts
    pc.opts = lambda tier, a=None: dict(_o(tier, a), nonfinite_check=True)
    pc2.opts = pc.opts
    return combined('C03', tier, a, specs, tr,
        'EXACT per path of log (small-angle / generic x quaternion hemisphere): M(exp(log X)) = M(X) for every symbolic unit X; rotation angle of log X at most pi (rational upper bound 3.1415926536); log(q) = log(-q) coefficient-wise; log(exp t) = t for rotation magnitude below pi (inverse polar axiom with its side obligations discharged by z3). TRUNC: log on its Taylor region within 1e-12*max(1,B) of the generic formula.',
        ['unit-norm rotation part (exact)', 'log(exp t)=t claimed for rotation magnitude < 3.1415926535 only', 'groups: ' + ','.join(tg)])
