from .common import *
def run(tier, a=None):
    tg = ['SO2t', 'SE2t', 'SO3t', 'SE3t'] + ([] if tier == 'quick' else ['SE23t', 'SGal3t'])
    specs = [{'src': 'h_c08.cpp', 'defs': ['TAG=' + t], 'filter': ('.*' if k == 0 else 'c08_(compose|inverse|exp).*')} for k, t in enumerate(tg)]
    # cast<>() across scalar types is a producer too: widening cast of any element valid in the narrow type (see C13 / h_xcast.cpp)
    specs.append({'src': 'h_xcast.cpp', 'defs': [], 'mode': 'symdbg', 'filter': 'xcast_widen.*', 'label': 'xcast-debug'})
    import props.common as pc
    _o = pc.opts
    pc.opts = lambda tier, a=None: dict(_o(tier, a), approx_ok=False, lemma_ms=40000)
    return simple('C08', tier, a, specs,
        'Inductive step instead of histories: from an ARBITRARY symbolic pre-state satisfying Inv: ||rot|^2-1| <= eps (no unit-norm hypothesis), compose yields |Z|^2 = |X|^2|Y|^2 on the no-renormalisation path (whose path condition is Inv(Z)) and |Z|^2 = n f(n)^2 on the renormalisation path, where for every n in [(1-eps)^2,(1+eps)^2] the library polynomial f = approxSqrtInv gives |n f(n)^2 - 1| <= 1e-6 eps; inverse preserves |.|^2; exp yields Inv on both branches; Inv implies the acceptance predicate ||q|-1| < eps of the assertion-enabled constructors. between/plus/+=/*=/interpolation/averaging are compositions of these producers, so the deviation bound is independent of the history length.',
        ['exact real arithmetic: rounding of each step (a few ulp = 1e-16 << eps = 2.2e-14) is outside the model', 'producers covered: exp, compose, inverse (and what is composed of them); cast: widening cast<>() with the narrow type modelled by rounding variables |d| <= 2^-24 (assertion-enabled build: no raise, result within the wide threshold); Random: see C13', 'groups: ' + ','.join(tg)])
