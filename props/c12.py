from .common import *
def run(tier, a=None):
    tg = ['SO2t', 'SE2t', 'SO3t'] + ([] if tier == 'quick' else ['SE3t'])
    specs = [{'src': 'h_c12.cpp', 'defs': ['TAG=' + t], 'maxpaths': 128} for t in tg]
    # float profile: the same EXACT obligations with eps = 100*2^-23 (branch thresholds of the single-precision instantiation)
    specs += [{'src': 'h_c01.cpp', 'defs': ['TAG=' + t], 'mode': 'symf', 'label': 'float-profile-c01-' + t} for t in tg]
    specs += [{'src': 'h_c02.cpp', 'defs': ['TAG=' + t], 'mode': 'symf', 'label': 'float-profile-c02-' + t} for t in tg]
    return simple('C12', tier, a, specs,
        'The library instantiated over a forward-mode dual-number scalar (sym::Jet, same rules as ceres::Jet / autodiff::dual): primal parts of compose/inverse/log/exp/rplus/rminus/between equal the plain-scalar computation; the dual parts of f(X(+)d)(-)f(X) at d=0, computed entirely by the library over dual numbers (its own rplus/rminus/exp/log), equal the analytic Jacobians of inverse, compose and log; the ceres LocalParameterization / Manifold Plus-Minus functors, instantiated with the symbolic and the dual scalar on raw buffers with poisoned surroundings, write exactly X(+)d and Y(-)X. Float profile: the EXACT obligations of C01/C02 are re-proved with the single-precision threshold eps=100*2^-23.',
        ['ceres/autodiff headers are not installed: sym::Jet stands for ceres::Jet/autodiff::dual; ceres/constants.h, ceres_utils.h, autodiff/* and the constraint functor (Eigen Cholesky) are not covered', 'float: branch structure and exact identities with the float threshold; rounding at single precision is outside EXACT mode', 'groups: ' + ','.join(tg)])
