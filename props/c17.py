"""C17: De Casteljau -- integer/control-flow slice of the real source -> C -> CBMC (two verification units)."""
import os, re, subprocess, json, time, itertools
from concurrent.futures import ThreadPoolExecutor
from vlib import runner, build, astx
from .common import ASSUME, TRUSTED
def cbmc(cfile, defs, unwind, timeout, extra=()):
    cmd = ['cbmc', cfile] + ['-D' + d for d in defs] + ['--unwind', str(unwind), '--unwinding-assertions', '--drop-unused-functions', '--trace'] + list(extra)
    t0 = time.time()
    try:
        r = subprocess.run(cmd, capture_output=True, text=True, timeout=timeout); out = r.stdout + r.stderr
    except subprocess.TimeoutExpired as e:
        out = ((e.stdout or b'').decode() if isinstance(e.stdout, bytes) else (e.stdout or '')) + '\nTIMEOUT'
    return out, time.time() - t0
def run(tier, a=None):
    res = runner.Result('C17', tier); known = runner.load_known('C17')
    wd = os.path.join(build.WORK, 'run', 'C17'); os.makedirs(wd, exist_ok=True)
    NMAX, KMAX = (6, 2) if tier == 'quick' else (9, 3)
    try:
        c = astx.slice_to_c(build.REPO) + astx.HARNESS
    except astx.SliceError as e:
        res.errors.append({'what': 'ENCODING-ERROR: decasteljau source contains a construct outside the slice language (no verdict)', 'diag': str(e)})
        runner.write_evidence(res, 'model_checking', 'slice could not be generated', ASSUME, 'python3-vt /verif/check.py C17', TRUSTED); return runner.conclude(res)
    c = c.replace('#define MAXSEG 18', '#define MAXSEG %d' % (NMAX + 2)).replace('#define MAXPTS 20', '#define MAXPTS %d' % (NMAX + 3))
    cf = os.path.join(wd, 'slice.c'); open(cf, 'w').write(c)
    units = [('A-open', ['UNIT_A', 'ONLY_OPEN', 'NMAX=%d' % NMAX, 'KMAX=%d' % KMAX], NMAX + 3), ('A-closed', ['UNIT_A', 'ONLY_CLOSED', 'NMAX=%d' % NMAX, 'KMAX=%d' % KMAX], NMAX + 3),
             ('B-fit', ['NMAX=%d' % (4 if tier == 'quick' else 5), 'KMAX=3'], (4 if tier == 'quick' else 5) * 3 + 2)]
    with ThreadPoolExecutor(3) as ex:
        outs = list(ex.map(lambda u: cbmc(cf, u[1], u[2], (900 if astx.FLOATS_IN_SLICE else 280) if tier == 'quick' else 2400), units))
    states = 0
    for (name, defs, unwind), (out, secs) in zip(units, outs):
        props = re.findall(r'^\[(\S+)\] line \d+ (.*?): (SUCCESS|FAILURE)$', out, re.M)
        res.extra['unit_' + name] = {'properties': len(props), 'seconds': round(secs, 1), 'unwind': unwind, 'defs': defs}
        states += len(props)
        if 'TIMEOUT' in out or not props:
            res.obligations += 1; res.undecided.append('unit %s: no CBMC verdict within the budget (%ds)' % (name, secs)); continue
        for pid, desc, st in props:
            res.obligations += 1
            if st == 'SUCCESS': res.discharged += 1; continue
            key = 'cbmc:%s:%s' % (name, desc)
            m = re.search(r'Trace for ' + re.escape(pid) + r':(.*?)(?:Trace for |\*\* \d+ of)', out, re.S)
            tr = m.group(1) if m else ''
            vals = {}
            for var in ('N', 'degree', 'k', 'closed'):
                mm = re.findall(r'\b' + var + r'=(\d+|TRUE|FALSE)', tr)
                if mm: vals[var] = {'TRUE': 1, 'FALSE': 0}.get(mm[0], mm[0])
            rep = replay_real(wd, vals)
            kf = runner.match_known(known, key)
            if kf: res.known.append((key, kf.get('what', ''))); continue
            d = os.path.join(build.VERIF, 'replay', 'C17'); os.makedirs(d, exist_ok=True)
            fn = os.path.join(d, re.sub(r'[^A-Za-z0-9]+', '_', key)[:80] + '.json')
            json.dump({'property': 'C17', 'key': key, 'entry': 'decasteljau', 'claim': desc, 'inputs': vals, 'cbmc_property': pid, 'replay': rep}, open(fn, 'w'), indent=1)
            res.violations.append((key, fn))
    # translation validation: generated C (native) vs the real decasteljau<SE2d> on the whole box
    nat = os.path.join(wd, 'slice_native'); real = os.path.join(wd, 'dc_real_' + build.tree_hash())
    r1 = subprocess.run(['gcc', '-DNATIVE', '-O1', '-o', nat, cf, '-lm'], capture_output=True, text=True)
    open(os.path.join(wd, 'dc.cpp'), 'w').write(REAL_SRC)
    r2 = subprocess.run(['g++', '-std=c++11', '-O1', '-w', '-I' + os.path.join(build.REPO, 'include'), '-I' + os.path.join(build.REPO, 'external/tl'), '-isystem', '/usr/include/eigen3', os.path.join(wd, 'dc.cpp'), '-o', real], capture_output=True, text=True)
    agree = 0; dis = []
    if r1.returncode == 0 and r2.returncode == 0:
        for N, d, k, cl in itertools.product(range(0, NMAX + 1), range(2, NMAX + 2), range(0, KMAX + 1), (0, 1)):
            a1 = subprocess.run([nat, str(N), str(d), str(k), str(cl)], capture_output=True, text=True).stdout
            try: a2 = subprocess.run([real, str(N), str(d), str(k), str(cl)], capture_output=True, text=True, timeout=10).stdout
            except subprocess.TimeoutExpired: a2 = 'timeout'
            m1 = re.search(r'raised=(\d) overflow=(\d) nseg=(\d+) curve_len=(\d+)', a1)
            if not m1: dis.append((N, d, k, cl, a1[:80], a2[:80])); continue
            exp = 'raised' if m1.group(1) == '1' else 'curve %s' % m1.group(4)
            if (exp == 'raised' and a2.startswith('raised')) or a2.strip() == exp: agree += 1
            elif m1.group(2) == '1': agree += 1   # slice stopped at its own bound; not comparable
            else: dis.append((N, d, k, cl, exp, a2.strip()[:60]))
    else:
        res.errors.append({'what': 'translation validation build failed', 'diag': (r1.stderr + r2.stderr)[-1500:]})
    if dis: res.errors.append({'what': 'translation validation: generated C and the real decasteljau disagree', 'cases': dis[:10]})
    res.validated = agree; res.paths = states; res.functions = {'manif::decasteljau (integer/control-flow slice: window construction; curve-fitting loops)'}
    res.extra.update({'states': max(1, states), 'transitions': max(1, states), 'traces_validated_against_impl': agree})
    res.samples = [{'unit': u[0], 'defs': u[1], 'unwind': u[2]} for u in units]
    res.bounds = ['N <= %d, 2 <= degree <= %d, k_interp <= %d, open and closed; --unwind with --unwinding-assertions' % (NMAX, NMAX + 1, KMAX), 'unit B (curve-fitting loops on one arbitrary window): N <= %d, k <= 3' % (4 if tier == 'quick' else 5), 'floating-point code in the slice: %s (when present it is kept verbatim and decided by CBMC bit-precisely)' % astx.FLOATS_IN_SLICE,
                  'floor(double(a)/double(b)) and double(t)/k == 1.0 are rewritten to exact integer arithmetic (valid for operands < 2^20); group operations are opaque except Q (+) ((Q\' (-) Q) * 1) = Q\' (C04)']
    runner.write_evidence(res, 'model_checking',
        'The integer and control-flow behaviour of decasteljau() is sliced from the current source text (containers -> bounded index arrays, &trajectory[e] -> recorded index with e < N assertion, unsigned int -> uint32_t, size_t -> uint64_t so wrap-around is preserved) and checked by CBMC for symbolic (N, degree, k_interp, closed): every read index is inside the trajectory, all loops terminate within the unwinding bound, invalid arguments raise and valid ones do not, the number of windows is maximal ((N-1) div (degree-1), plus one wrapping window when closed), window w covers indices w(d-1)..w(d-1)+d-1 with exactly degree control points, every window yields the documented fixed number of curve points and its last curve point is its last control point. The generated C is also compiled natively and compared with the real decasteljau<SE2d> on the whole box.',
        ASSUME + ['std::vector semantics of emplace_back/push_back/back/size/clear/operator[]/operator= modelled by bounded arrays'], 'python3-vt /verif/check.py C17 --tier %s' % tier, ['cbmc 6.11.0 (C front end) on the generated slice; units verified: decasteljau_windows, decasteljau_fit', 'the textual slicer vlib/astx.py, validated against the real function on the whole box'])
    return runner.conclude(res)
def replay_real(wd, vals):
    try:
        real = os.path.join(wd, 'dc_real_asan_' + build.tree_hash()); src = os.path.join(wd, 'dc.cpp'); open(src, 'w').write(REAL_SRC)
        if not os.path.exists(real):
            subprocess.run(['g++', '-std=c++11', '-O1', '-g', '-w', '-fsanitize=address', '-I' + os.path.join(build.REPO, 'include'), '-I' + os.path.join(build.REPO, 'external/tl'), '-isystem', '/usr/include/eigen3', src, '-o', real], capture_output=True)
        args = [str(vals.get('N', 3)), str(vals.get('degree', 2)), str(vals.get('k', 1)), str(vals.get('closed', 0))]
        r = subprocess.run([real] + args, capture_output=True, text=True, timeout=10, env=dict(os.environ, ASAN_OPTIONS='detect_leaks=0'))
        return {'args': args, 'stdout': r.stdout[-300:], 'stderr': r.stderr[-600:], 'returncode': r.returncode}
    except subprocess.TimeoutExpired:
        return {'args': args, 'result': 'no termination within 10 s'}
    except Exception as e:
        return {'error': repr(e)}
REAL_SRC = r'''
#include "manif/manif.h"
#include "manif/algorithms/decasteljau.h"
#include <iostream>
int main(int c,char**v){ using namespace manif; int N=atoi(v[1]),d=atoi(v[2]),k=atoi(v[3]),cl=atoi(v[4]); std::vector<SE2d> t; for(int i=0;i<N;i++) t.push_back(SE2d(i,0.5*i,0.1*i));
 try{ auto cv=decasteljau(t,d,k,cl); std::cout<<"curve "<<cv.size()<<"\n"; }catch(std::exception&e){ std::cout<<"raised "<<e.what()<<"\n"; } return 0; }
'''
