from .common import *
from vlib import runner
def combined(pid, tier, a, specs, trunc_specs, explanation, bounds, level='proof', cond_specs=()):
    """EXACT entries + TRUNC entries in one evidence file."""
    res = runner.Result(pid, tier); res.bounds = bounds
    if a is not None and a.only:
        import re
        specs = [s for s in specs if re.search(a.only, s['src'] + ':' + ','.join(s['defs']))]
        trunc_specs = [s for s in trunc_specs if re.search(a.only, s['src'] + ':' + ','.join(s['defs']))]
    o = opts(tier, a)
    if specs:
        out = runner.run_sym(res, specs, o); runner.finish_sym(res, *out, o)
    if trunc_specs:
        runner.run_trunc(res, trunc_specs, o)
    if cond_specs:
        cs = list(cond_specs)
        if a is not None and a.only:
            import re
            cs = [s for s in cs if re.search(a.only, s['src'] + ':' + ','.join(s['defs']))]
        if cs: runner.run_cond(res, cs, o)
    runner.write_evidence(res, level, explanation, ASSUME, 'python3-vt /verif/check.py %s --tier %s' % (pid, tier), TRUSTED)
    return runner.conclude(res)
