from .common import *
LAYOUTS_Q = [('L0', 'SO2t,SE3t,R3t'), ('L1', 'SE2t,SO3t,R1t,SE2t')]
LAYOUTS_T = LAYOUTS_Q + [('L2', 'SE2t,SGal3t'), ('L3', 'SGal3t,SO2t,SE23t,R1t'), ('L4', 'R5t,SO3t,SO3t,SE2t'), ('L5', 'SE23t'), ('L6', 'SO3t,SE3t,SE2t,SO2t,R3t,SE23t')]
def run(tier, a=None):
    lay = LAYOUTS_Q if tier == 'quick' else LAYOUTS_T
    specs = [{'src': 'h_c11.cpp', 'defs': ['LAYOUT=' + l, 'LNAME=' + n], 'maxpaths': 512} for n, l in lay]
    import props.common as pc
    _o = pc.opts
    pc.opts = lambda tier, a=None: dict(_o(tier, a), structural=True)
    return simple('C11', tier, a, specs,
        'Per Bundle layout, over the same symbols: each segment of the Bundle result of inverse/compose/between/rplus/lplus/exp/act/log/rminus equals the stand-alone element operation; Jacobians of inverse/compose/exp/rplus/log, adj, rjac/ljac/rjacinv/ljacinv, smallAdj and InnerWeights equal the block-diagonal assembly of the element matrices with exact zeros elsewhere; hat is block diagonal at the algebra offsets, Vee(hat t)=t, hat = sum t_i Generator(i); element<i>() aliases the i-th coefficients at the RepSize/DoF prefix sums. Layouts: ' + '; '.join(n + '=<' + l + '>' for n, l in lay),
        ['layouts enumerated: ' + ', '.join(l for n, l in lay), 'Bundle::transform() does not compile on the pinned tree (see C19 findings) and is not covered', 'paths per entry <= 512'])
