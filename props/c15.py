from .common import *
def run(tier, a=None):
    tg = ['SO2t', 'R3t', 'SO3t'] + ([] if tier == 'quick' else ['SE2t'])
    specs = [{'src': 'h_c15.cpp', 'defs': ['TAG=SO2t'], 'filter': 'c15_phi.*'}]
    for t in tg:
        light = t in ('SO2t', 'R3t') or tier != 'quick'
        specs.append({'src': 'h_c15.cpp', 'defs': ['TAG=' + t, 'METHOD=SLERP'], 'filter': ('c15_(endpoints|range_hi|range_lo|range_ok|slerp_law|equivariance).*' if light else 'c15_(endpoints|range_hi|range_lo).*'), 'maxpaths': 48})
        for m in ('CUBIC', 'CNSMOOTH'):
            specs.append({'src': 'h_c15.cpp', 'defs': ['TAG=' + t, 'METHOD=' + m], 'filter': 'c15_(endpoints|range_hi|range_lo|range_ok).*' if light else 'c15_(endpoints).*', 'maxpaths': 48})
    return simple('C15', tier, a, specs,
        'smoothing_phi: for degree m=1..4 the derivative (dual numbers through the real function) equals c_m t^m (1-t)^m with c_m=(2m+1)!/(m!)^2, phi(0)=0, phi(1)=1, phi\' >= 0 and 0<=phi<=1 on [0,1]; degrees 0,5,6,17 raise. interpolate(A,B,0)=A and interpolate(A,B,1)=B as matrices for SLERP, CUBIC and CNSMOOTH with symbolic end points and symbolic end velocities; for symbolic t>1 and t<0 every non-raising path is infeasible and for 0<=t<=1 every raising path is infeasible (all three methods); SLERP: M(m(t)) = M(A) M(exp(t log(A^-1 B))) for symbolic t in [0,1]; left equivariance M(interp(gA,gB,t)) = M(g) M(interp(A,B,t)).',
        ['relative rotation of the end points not exactly pi', 'unsupported degrees checked: 0,5,6,17 (not all of size_t)', 'range checks and equivariance use exact rational end points', 'groups: ' + ','.join(tg)])
