ENGINES = [
 {'name': 'symx+scsn', 'path': 'symx/ vlib/ harness/', 'serves_properties': ['C01'], 'kind_free_text': 'symbolic execution of the real C++ templates through a symbolic scalar (hash-consed DAG, path enumeration by re-execution), QF_NRA encoding, solver-checked stepwise normalisation with z3 4.8.12 nlsat; counterexamples replayed on the double build'},
]
NOT_APPLICABLE = {}
CHECKS = {
 'C01': {'level': 'proof', 'technique': 'symbolic execution of the real templates over a symbolic scalar + SMT (QF_NRA, z3 nlsat) with solver-checked stepwise normalisation',
         'text': 'For symbolic unit-norm X, Y and symbolic p (no magnitude bound) every matrix entry of compose/inverse/Identity/act/transform is proved equal to the documented matrix-group result, per enumerated path; infeasible paths (renormalisation for unit inputs) are proved infeasible. Exact over the reals; floating-point rounding is outside this check.',
         'note': 'Trusted: z3 verdicts, g++/Eigen executing the templates over sym::Real, the axiom instances listed in the evidence. Inputs assumed exactly unit-norm.'},
}
