from .common2 import *
def run(tier, a=None):
    specs = [{'src': 'h_c02.cpp', 'defs': ['TAG=' + t]} for t in tags(tier)]
    specs += [{'src': 'h_c02.cpp', 'defs': ['TAG=' + t, 'ZERO_ROT'], 'filter': 'c02_ode.*'} for t in tags(tier) if not t.startswith('R')]
    tr = [{'src': 'h_trunc.cpp', 'defs': ['TAG=' + t], 'filter': 'tr_exp.*', 'ap_prefixes': ['exp(']} for t in tags(tier) if not t.startswith('R')]
    cd = [{'src': 'h_cond.cpp', 'defs': ['TAG=' + t], 'filter': 'cond_exp.*', 'out_prefixes': ['exp(']} for t in ('SE2t', 'SO3t', 'SE3t')]
    import props.common as pc
    _o = pc.opts
    pc.opts = lambda tier, a=None: dict(_o(tier, a), nonfinite_check=True, cond_tol='1/1000000000')
    import props.common2 as pc2
    pc2.opts = pc.opts
    return combined('C02', tier, a, specs, tr,
        'EXACT (generic branch): d/ds M(exp(s t))|_{s=1} = hat(t) M(exp t) for symbolic t, derivative obtained by running the real exp over dual numbers; the same identity at exactly zero rotation with symbolic linear parts (Taylor branch, exact there); exp(0)=Identity. TRUNC (Taylor branch, 0<theta^2<=eps): every coefficient of exp on the Taylor branch is within 1e-12*max(1,B) of the generic closed form for linear parts in the box |.|<=B, B in {1,1e6}, decided per monomial by z3 with alternating-series enclosures.',
        ['generic branch: no magnitude bound (real arithmetic)', 'Taylor region: linear components bounded by B in {1, 1e6}; tolerance 1e-12*max(1,B)', 'COND-lite: amplification of libm rounding errors into the coefficients of exp on the generic branch bounded by 1e-9 (values) per decade of the rotation magnitude between 2.3e-14 and 1 (decades excluded by the path condition are skipped)', 'groups: ' + ','.join(tags(tier))], cond_specs=cd)
