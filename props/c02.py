from .common import *
def run(tier, a=None):
    specs = [{'src': 'h_c02.cpp', 'defs': ['TAG=' + t]} for t in tags(tier)]
    return simple('C02', tier, a, specs,
        'EXACT (generic branch): d/ds M(exp(s t))|_{s=1} = hat(t) M(exp t) for symbolic t, derivative obtained by running the real exp over dual numbers; exp(0)=Identity. Small-angle paths are compared numerically here and decided by the TRUNC obligations.',
        ['no magnitude bound on the generic branch (real arithmetic)', 'groups: ' + ','.join(tags(tier))])
