from .common2 import *
def run(tier, a=None):
    tg = tags(tier)
    specs = []
    for t in tg:
        heavy = t in ('SE3t', 'SE23t', 'SGal3t')
        if tier == 'quick' and heavy:
            specs.append({'src': 'h_c05.cpp', 'defs': ['TAG=' + t], 'filter': 'c05_(inverse|log|exp|compose|act|tangent|rplus_symX|rminus_symX).*'})
        else:
            specs.append({'src': 'h_c05.cpp', 'defs': ['TAG=' + t]})
            if tier != 'quick': specs.append({'src': 'h_c05.cpp', 'defs': ['TAG=' + t, 'KIDX=1'], 'filter': 'c05_.*_sym[XYT].*'})
        if not t.startswith('R'): specs.append({'src': 'h_c05.cpp', 'defs': ['TAG=' + t, 'ZERO_ROT'], 'filter': 'c05_exp.*'})
    # zero-valued coordinates that carry a derivative (time of SGal3, a velocity of SE_2_3, a translation of SE3/SE2)
    for t, zc, zt in (('SGal3t', 10, 9), ('SE23t', 7, 6), ('SE3t', 0, 0), ('SE2t', 0, 0)):
        specs.append({'src': 'h_c05.cpp', 'defs': ['TAG=' + t, 'ZCOORD=%d' % zc, 'ZTCOORD=%d' % zt], 'filter': 'c05_(log|exp)_zero_coord.*'})
    tr = [{'src': 'h_trunc.cpp', 'defs': ['TAG=' + t], 'filter': 'tr_(exp|log).*', 'ap_prefixes': ['Jexp', 'Jlog']} for t in tg if not t.startswith('R')]
    cd = [{'src': 'h_cond.cpp', 'defs': ['TAG=' + t], 'filter': 'cond_exp.*', 'out_prefixes': ['Jexp']} for t in ('SE2t', 'SO3t', 'SE3t')]
    import props.common as pc, props.common2 as pc2
    _o = pc.opts
    pc.opts = lambda tier, a=None: dict(_o(tier, a), nonfinite_check=True)
    pc2.opts = pc.opts
    return combined('C05', tier, a, specs, tr,
        'EXACT (generic branches; exp also at exactly zero rotation): each analytic Jacobian returned by inverse/log/exp/compose/between/rplus/lplus/plus/rminus/lminus/minus/act and tangent plus/minus equals the derivative obtained by running the same real operation over dual numbers on an argument perturbed to first order independently of the library (dM(f)/dd_k = M(f) hat(J e_k) resp. df/dd_k = J e_k), per path. Two-argument derived operations: one argument symbolic, the other concretised to exact rational points (expression swell). The derivative of log/exp at exact rational points with one linear coordinate exactly zero (SGal3 time, SE_2_3 velocity, SE3/SE2 translation): a branch on the primal value of a dual number must not lose the derivative. TRUNC: Jacobians of exp/log on the Taylor region within 1e-6*max(1,B) of the generic closed forms.',
        ['generic branches: no magnitude bound', 'relative rotation of log/rminus/lminus results below pi', 'rplus/lplus/rminus/lminus: second argument restricted to the exact rational points K0 (quick) / K0,K1 (thorough) listed in symx/groups.h', 'COND-lite on the exp Jacobian (see C06)', 'groups: ' + ','.join(tg)], cond_specs=cd)
