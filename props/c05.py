from .common import *
def run(tier, a=None):
    specs = [{'src': 'h_c05.cpp', 'defs': ['TAG=' + t]} for t in tags(tier)]
    return simple('C05', tier, a, specs,
        'EXACT (generic branches): each analytic Jacobian returned by inverse/log/exp/compose/between/rplus/lplus/plus/rminus/lminus/minus/act and tangent plus/minus equals the derivative obtained by running the same real operation over dual numbers on an argument perturbed to first order independently of the library (dM(f)/dd_k = M(f) hat(J e_k) resp. df/dd_k = J e_k), for symbolic valid inputs, per path.',
        ['no magnitude bound on generic branches (real arithmetic)', 'relative rotation of log/rminus/lminus results assumed below pi (injectivity radius)', 'groups: ' + ','.join(tags(tier))])
