from .common import *
def run(tier, a=None):
    tg = tags(tier) if tier != 'quick' else ['SO2t', 'SE2t', 'SO3t', 'SE3t', 'R3t']
    specs = [{'src': 'h_c09.cpp', 'defs': ['TAG=' + t], 'maxpaths': 1024} for t in tg]
    specs += [{'src': 'h_c09.cpp', 'defs': ['TAG=Bnd<SE2t,SO3t,R3t>'], 'filter': 'c09_(sub|blk)_(compose|between|rplus|lplus|inverse|log|exp).*', 'maxpaths': 1024}]
    if tier == 'quick': specs += [{'src': 'h_c09.cpp', 'defs': ['TAG=' + t], 'filter': 'c09_subsets_act.*', 'maxpaths': 64} for t in ('SE23t', 'SGal3t')]   # act() subsets are cheap on every group
    import props.common as pc
    _o = pc.opts
    pc.opts = lambda tier, a=None: dict(_o(tier, a), structural=True)
    return simple('C09', tier, a, specs,
        'EXACT on the recorded DAGs: for every operation with optional Jacobians all subsets of requested outputs give the same value and the same Jacobians as the all-outputs call; Jacobians bound to blocks of a larger matrix pre-filled with distinct symbols change exactly the block; argument coefficients are the same symbols before and after; aliased forms (X=X*X, X*=X, X=X.inverse(), view+=t, view=view*view) equal the unaliased computation; a call repeated after other library activity (first use of statics, other operations) returns the identical result. One symbolic run per path covers all inputs because access patterns do not depend on values.',
        ['history independence: bounded to the interleaved activity executed in the harness (plus the static-initialisation argument of C14)', 'groups: ' + ','.join(tg) + ', Bundle<SE2,SO3,R3> (subset and block entries); quick tier: act() subsets additionally on SE_2_3 and SGal3'])
