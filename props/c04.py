from .common import *
def run(tier, a=None):
    specs = [{'src': 'h_c04.cpp', 'defs': ['TAG=' + t], 'filter': 'c04_(rplus|lplus|between|rminus|lminus).*', 'maxpaths': 256} for t in tags(tier)]
    specs += [{'src': 'h_c04.cpp', 'defs': ['TAG=' + t], 'filter': 'c04_alias.*', 'opts': {'structural': True}, 'maxpaths': 256} for t in tags(tier)]
    return simple('C04', tier, a, specs,
        'EXACT: M(X.rplus t)=M(X)M(exp t); M(X.lplus t)=M(exp t)M(X); M(X)M(X.between Y)=M(Y); M(Y)M(exp(X.rminus Y))=M(X) and M(exp(X.lminus Y))M(Y)=M(X) with rotation of the result below pi; every alias (plus/minus, + - * += *=, t+X, t.plus/lplus/rplus(X), lift, free functions) produces the same value and Jacobians as the canonical member.',
        ['no magnitude bound (real arithmetic)', 'relative rotation below pi for the minus forms', 'groups: ' + ','.join(tags(tier))])
