"""C14: const API thread safety -- LLVM IR -> shared-memory skeleton in C -> CBMC over all interleavings of N threads."""
import os, re, subprocess, json, time
from concurrent.futures import ThreadPoolExecutor
from vlib import runner, build, irx
from .common import ASSUME, TRUSTED
ENTRIES = ['e_SE3_Identity', 'e_SE3Tangent_Zero', 'e_SE3_Generator', 'e_SE2_InnerWeights', 'e_SE3_InnerWeights', 'e_SGal3_InnerWeights', 'e_SO2_adj', 'e_SO2Tangent_jacs', 'e_R3_adj', 'e_R3Tangent_jacs',
           'e_SO2_setIdentity', 'e_SE3_compose', 'e_SE3_log', 'e_SE3_act', 'e_SO3Tangent_exp', 'e_SE2Tangent_rjac', 'e_Bundle_rjac', 'e_Bundle_compose',
           'e_SE3_adj', 'e_SE2_adj', 'e_SO3_adj', 'e_SE_2_3_adj', 'e_SGal3_adj', 'e_SE3_compose_J', 'e_SE3_rminus_J', 'e_SE2_exp_J'] + [('e_%sTangent_%s' % (g, f)) for g in ('SE3', 'SE2', 'SO3', 'SE_2_3', 'SGal3') for f in ('smallAdj', 'bracket', 'hat')] + ['e_SE3Tangent_jacs', 'e_SO3Tangent_jacs']
def run(tier, a=None):
    res = runner.Result('C14', tier); known = runner.load_known('C14')
    wd = os.path.join(build.WORK, 'run', 'C14'); os.makedirs(wd, exist_ok=True)
    ll = os.path.join(wd, 'entries.ll')
    r = subprocess.run(['clang++-14', '-std=c++11', '-O1', '-DNDEBUG', build.GUARD, '-DEIGEN_DONT_VECTORIZE', '-fno-vectorize', '-fno-slp-vectorize', '-fno-unroll-loops', '-S', '-emit-llvm',
                        '-I' + os.path.join(build.REPO, 'include'), '-I' + os.path.join(build.REPO, 'external/tl'), '-isystem', '/usr/include/eigen3', os.path.join(build.VERIF, 'harness/c14/entries.cpp'), '-o', ll], capture_output=True, text=True)
    if r.returncode != 0:
        res.errors.append({'what': 'entries do not compile to IR', 'diag': r.stderr[-2000:]})
        runner.write_evidence(res, 'model_checking', 'no IR', ASSUME, 'python3-vt /verif/check.py C14', TRUSTED); return runner.conclude(res)
    skel, fid, stats, objs, guards = irx.translate(open(ll).read(), ENTRIES)
    nthreads = 2 if tier == 'quick' else 3
    def one(entry, nthreads=nthreads):
        cf = os.path.join(wd, entry + '.c'); open(cf, 'w').write(skel + '\n' + irx.harness(fid, entry, nthreads))
        t0 = time.time()
        try:
            rr = subprocess.run(['cbmc', cf, '--unwind', '3', '--no-unwinding-assertions', '--drop-unused-functions', '--trace'], capture_output=True, text=True, timeout=(120 if tier == 'quick' else 1200) if nthreads > 1 else 200)
            out = rr.stdout + rr.stderr
        except subprocess.TimeoutExpired:
            if nthreads > 1:
                e2, out, s2 = one(entry, 1)     # fall back to the single-thread guard-discipline check
                return entry + ' [1 thread: guard discipline only]', out, time.time() - t0
            out = 'TIMEOUT'
        return entry, out, time.time() - t0
    with ThreadPoolExecutor(8) as ex: outs = list(ex.map(lambda e: one(e), [e for e in ENTRIES if '@' + e in fid]))
    states = 0
    for entry, out, secs in outs:
        props = re.findall(r'^\[(\S+)\] line \d+ (.*?): (SUCCESS|FAILURE)$', out, re.M)
        res.functions.add(entry)
        if out == 'TIMEOUT' or 'VERIFICATION' not in out:
            res.obligations += 1; res.undecided.append('%s: no CBMC verdict (%ds)' % (entry, secs)); continue
        states += len(props)
        for pid, desc, st in props:
            res.obligations += 1
            if st == 'SUCCESS': res.discharged += 1; continue
            key = 'race:%s:%s' % (entry, desc)
            kf = runner.match_known(known, key)
            if kf: res.known.append((key, kf.get('what', ''))); continue
            d = os.path.join(build.VERIF, 'replay', 'C14'); os.makedirs(d, exist_ok=True)
            m = re.search(r'Trace for ' + re.escape(pid) + r':(.*?)(?:Trace for |\*\* \d+ of)', out, re.S)
            obj = re.findall(r'(WRITE|READ)\((\d+)\)', desc)
            fn = os.path.join(d, re.sub(r'[^A-Za-z0-9]+', '_', key)[:90] + '.json')
            json.dump({'property': 'C14', 'key': key, 'entry': entry, 'claim': desc, 'inputs': {'threads': nthreads}, 'cbmc_property': pid, 'interleaving_trace_tail': (m.group(1)[-3000:] if m else ''), 'skeleton': os.path.join(wd, entry + '.c'),
                       'replay': {'note': 'interleaving found on the shared-memory skeleton extracted from the real IR; the listed skeleton file replays it with cbmc --trace'}}, open(fn, 'w'), indent=1)
            res.violations.append((key, fn))
    for g in stats['unguarded_static_candidates']:
        res.obligations += 1
        key = 'unguarded-static:' + g
        kf = runner.match_known(known, key)
        if kf: res.known.append((key, kf.get('what', ''))); continue
        d = os.path.join(build.VERIF, 'replay', 'C14'); os.makedirs(d, exist_ok=True)
        fn = os.path.join(d, re.sub(r'[^A-Za-z0-9]+', '_', key)[:90] + '.json'); json.dump({'property': 'C14', 'key': key, 'entry': 'IR', 'claim': 'function-local static without guard variable', 'inputs': {}, 'replay': {}}, open(fn, 'w'))
        res.violations.append((key, fn))
    res.discharged += len([1 for g in objs if g.startswith('@_ZZ')]) - len(stats['unguarded_static_candidates']) if False else 0
    res.paths = states
    res.extra.update({'states': max(1, states), 'transitions': max(1, states), 'traces_validated_against_impl': 0, 'ir_stats': {k: v for k, v in stats.items() if k != 'unguarded_static_candidates'}, 'threads': nthreads, 'shared_objects': objs[:40]})
    res.samples = [{'entry': e, 'seconds': round(s, 1)} for e, o, s in outs[:6]]
    res.bounds = ['%d threads executing the same entry point, including first use of every lazily initialised static' % nthreads, 'loops of the skeleton cut after 3 iterations (--unwind 3, no unwinding assertions): an event inside a loop is repeated at most 3 times',
                  'entry points: ' + ', '.join(ENTRIES)]
    runner.write_evidence(res, 'model_checking',
        'For each const-API entry point the interprocedural sequence of events that touch shared storage (acquire loads of guard variables, __cxa_guard_acquire/release/abort, loads/stores/mem-intrinsics whose address is derived from a mutable global, calls) is extracted from the LLVM IR clang++-14 -O1 produces for the real code; branches not derived from a guard value are nondeterministic. CBMC explores all interleavings of the threads and checks a per-object monitor: no write to a shared object overlaps another access. Entry points without function-local statics must produce a skeleton without any write to shared storage.',
        ['__cxa_guard_acquire/release/abort modelled by the Itanium C++ ABI contract (exactly one caller initialises, others block until release)', '-fthreadsafe-statics in effect (a guard variable exists for every function-local static; checked on the IR)', 'pointer provenance: an address is attributed to a global when it is derived from it by getelementptr/bitcast/phi/select in the same function; accesses through pointers passed from callers (the user\'s own objects) are thread-private or read-only by the const API contract'],
        'python3-vt /verif/check.py C14 --tier %s' % tier, ['cbmc 6.11.0 (C front end, threads via __CPROVER_ASYNC) on the generated skeletons', 'clang++-14 -O1 as producer of the IR', 'vlib/irx.py (IR reader and skeleton generator)'])
    return runner.conclude(res)
