#!/usr/bin/env python3
"""Record a fifth-batch seeded change (patch3) confirmed by me in the agent's worktree: tools/add_seeded3.py Cnn 'needs' 'ran' 'caught_by' 'verdict'"""
import sys, os, json, shutil
prop, needs, ran, caught, verdict = sys.argv[1:6]
src = '/tmp/out_' + prop; sid = prop + '_patch3'; d = os.path.join('/verif/seeded', sid); os.makedirs(d, exist_ok=True)
shutil.copy(src + '/patch3.diff', d + '/patch.diff'); shutil.copy(src + '/demo3.cpp', d + '/demo.cpp'); shutil.copy(src + '/notes3.md', d + '/notes.md')
meta = {'breaks_property': prop, 'source': 'independent sub-agent (fifth batch) given only the property text and its own scratch worktree of /repo at c56683c (all fix: commits), nothing from /verif',
        'needs_to_manifest': needs, 'files': sorted(os.listdir(d) + ['meta.json']),
        'confirmation': 'by me in the agent worktree: git diff identical to patch.diff, ninja reports no work to do, ctest 100% passed 17/17 with the change, demo exits 1 with FAIL lines on the changed tree and 0 on /repo',
        'checks_run_against_it': ran, 'caught_by': caught, 'verdict': verdict}
meta['files'] = sorted(set(meta['files']))
json.dump(meta, open(d + '/meta.json', 'w'), indent=1)
DET = json.load(open('/verif/tools/seeded_detection.json'))
DET[sid] = {'needs': needs, 'ran': ran, 'caught_by': caught, 'verdict': verdict}
json.dump(DET, open('/verif/tools/seeded_detection.json', 'w'), indent=1)
print(sid, verdict)
