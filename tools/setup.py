#!/usr/bin/env python3
"""Offline setup: verify the tool chain the checks need; nothing is downloaded or built here
(harness binaries are rebuilt by every check from /repo's current tree)."""
import shutil, subprocess, sys
ok = True
for t in ('g++', 'z3', 'cvc5', 'cbmc', 'clang++-14'):
    p = shutil.which(t)
    print('%-10s %s' % (t, p))
    if not p and t in ('g++', 'z3'): ok = False
try:
    import sympy, mpmath
    print('sympy', sympy.__version__, 'mpmath', mpmath.__version__)
except Exception as e:
    print('python deps missing', e); ok = False
sys.exit(0 if ok else 1)
