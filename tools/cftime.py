import sys, time, signal
sys.path.insert(0,'/verif')
from vlib import dag, cf
from concurrent.futures import ProcessPoolExecutor
fn=sys.argv[1]; cap=int(sys.argv[2])
es = dag.load(fn)
def one(a):
    en,pi=a
    e=[x for x in es if x.name==en][0]; p=e.paths[pi]
    roots=[]
    for (a_, c, b, t) in p.decisions: roots += [a_, b]
    for (k, name, l, r) in p.claims: roots += [l, r]
    signal.alarm(cap)
    t=time.time()
    try:
        C=cf.Canon(e.nodes, roots, p.hyps); C.run(roots)
        return (en,pi,len(C.cone),round(time.time()-t,1),C.maxsize,len(p.decisions),'ok')
    except BaseException as ex:
        return (en,pi,len(C.cone),round(time.time()-t,1),C.maxsize,len(p.decisions),type(ex).__name__+str(ex)[:60])
def h(*a): raise TimeoutError()
signal.signal(signal.SIGALRM,h)
jobs=[(e.name,p.idx) for e in es for p in e.paths]
with ProcessPoolExecutor(16) as ex:
    for r in ex.map(one,jobs): print(r, flush=True)
