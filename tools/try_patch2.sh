#!/bin/bash
# like try_patch.sh but on a scratch worktree of /repo (VERIF_REPO), so that /repo itself stays untouched
p=$1; prop=$2; tier=$3; only=$4
T=/tmp/repo_trial
git -C $T checkout -q -- . ; git -C $T checkout -q --detach $(git -C /repo rev-parse HEAD)
cd $T && git apply --check "$p" 2>/dev/null || { echo "$(basename $(dirname $p))/$(basename $p) $prop: PATCH DOES NOT APPLY"; exit 0; }
git apply "$p"
cd /verif
if [ -n "$only" ]; then out=$(VERIF_REPO=$T timeout 1800 python3-vt check.py $prop --tier $tier --only "$only" 2>&1); else out=$(VERIF_REPO=$T timeout 1800 python3-vt check.py $prop --tier $tier 2>&1); fi
rc=$?
git -C $T checkout -q -- .
nv=$(echo "$out" | grep -c "^VIOLATION")
first=$(echo "$out" | grep -A1 "^VIOLATION" | sed -n 2p | cut -c1-120)
summ=$(echo "$out" | grep -E "^$prop tier" | cut -c1-160)
echo "$(basename $(dirname $p))/$(basename $p) -> $prop $tier $only: exit=$rc violations=$nv first='$first' | $summ"
