import sys, time
sys.path.insert(0,'/verif')
from vlib import dag, prove, smt, cf
es = {e.name:e for e in dag.load(sys.argv[1])}
e = es[sys.argv[2]]; p=e.paths[int(sys.argv[3])]
roots=[]
for (a, c, b, t) in p.decisions: roots += [a, b]
for (k, name, l, r) in p.claims: roots += [l, r]
print('claims',len(p.claims),'cone',len(dag.cone(e.nodes,roots)))
import cProfile, pstats
C=cf.Canon(e.nodes, roots, p.hyps)
t=time.time()
cProfile.run('C.run(roots)','/tmp/prof')
print('cf time',time.time()-t,'maxsize',C.maxsize)
pstats.Stats('/tmp/prof').sort_stats('cumtime').print_stats(18)
