#!/usr/bin/env python3
"""Replay a recorded counterexample against the real build: python3-vt tools/replay.py replay/<id>/<case>.json
EXACT/outcome records: re-run the double (or debug) harness binary with the recorded inputs; TRUNC/COND: same, comparing
with the recorded 60-digit reference; C17/C19/C07-irx: re-run the recorded command; C14: the CBMC skeleton with --trace."""
import sys, os, json, subprocess, tempfile, re
sys.path.insert(0, os.path.dirname(os.path.dirname(os.path.abspath(__file__))))
rec = json.load(open(sys.argv[1]))
print(json.dumps({k: rec[k] for k in ('property', 'key', 'claim', 'inputs', 'mode') if k in rec}, indent=1))
rp = rec.get('replay') or {}
if rp.get('cmd') and not rp.get('binary'):
    print('$', rp['cmd']); r = subprocess.run(rp['cmd'], shell=True, capture_output=True, text=True); print(r.stdout[-2000:], r.stderr[-2000:]); sys.exit(0)
if rec.get('skeleton'):
    print('$ cbmc', rec['skeleton'], '--unwind 3 --no-unwinding-assertions --trace --property', rec.get('cbmc_property'))
    r = subprocess.run(['cbmc', rec['skeleton'], '--unwind', '3', '--no-unwinding-assertions', '--trace', '--property', rec.get('cbmc_property', '')], capture_output=True, text=True); print(r.stdout[-3000:]); sys.exit(0)
b = rp.get('binary')
if b and os.path.exists(b) and rec.get('entry'):
    with tempfile.NamedTemporaryFile('w', suffix='.txt', delete=False) as f:
        for k, v in (rec.get('inputs') or {}).items(): f.write('%s:%s %s\n' % (rec['entry'], k, float(v).hex()))
    out = subprocess.run([b, '/dev/stdout', re.escape(rec['entry']), '--input', f.name], capture_output=True, text=True).stdout
    for line in out.splitlines():
        p = line.split(' ')
        if p[0] == 'PATH': print('outcome:', ' '.join(p[2:]))
        if p[0] in ('EQ', 'LE', 'LT', 'AP') and p[1] == rec.get('claim'):
            print('double build: lhs=%r rhs=%r' % (float.fromhex(p[2]), float.fromhex(p[3])))
        if p[0] == 'OUT' and rec.get('claim', '').startswith(p[1] + '@'):
            print('double build: %s = %r   (60-digit reference %r)' % (p[1], float.fromhex(p[2]), rec.get('reference_60_digits')))
else:
    print('replay binary not present (re-run the check to rebuild it); recorded result:', json.dumps(rp)[:800])
