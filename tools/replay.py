#!/usr/bin/env python3
"""Replay a recorded counterexample against the real double build: python3-vt tools/replay.py replay/<id>/<case>.json"""
import sys, os, json, subprocess, tempfile
sys.path.insert(0, os.path.dirname(os.path.dirname(os.path.abspath(__file__))))
rec = json.load(open(sys.argv[1]))
print(json.dumps({k: rec[k] for k in ('property', 'key', 'inputs', 'model_lhs', 'model_rhs') if k in rec}, indent=1))
rp = rec.get('replay') or {}
b = rp.get('binary')
if b and os.path.exists(b):
    with tempfile.NamedTemporaryFile('w', suffix='.txt', delete=False) as f:
        for k, v in rec['inputs'].items(): f.write('%s:%s %s\n' % (rec['entry'], k, float(v).hex()))
    import re
    out = subprocess.run([b, '/dev/stdout', re.escape(rec['entry']), '--input', f.name], capture_output=True, text=True).stdout
    for line in out.splitlines():
        p = line.split(' ')
        if p[0] in ('EQ', 'LE', 'LT') and p[1] == rec['claim']:
            print('double build: lhs=%r rhs=%r' % (float.fromhex(p[2]), float.fromhex(p[3])))
else:
    print('replay binary not present; re-run the check to rebuild it. recorded result:', rp)
