#!/bin/bash
# usage: try_patch.sh <patch.diff> <property> <tier> [only-regex]   -- applies the patch to /repo, runs the check, reverts
p=$1; prop=$2; tier=$3; only=$4
cd /repo && git apply --check "$p" 2>/dev/null || { echo "$(basename $(dirname $p))/$(basename $p) $prop: PATCH DOES NOT APPLY"; exit 0; }
git apply "$p"
cd /verif
if [ -n "$only" ]; then out=$(timeout 1500 python3-vt check.py $prop --tier $tier --only "$only" 2>&1); else out=$(timeout 1500 python3-vt check.py $prop --tier $tier 2>&1); fi
rc=$?
git -C /repo checkout -- .
nv=$(echo "$out" | grep -c "^VIOLATION")
first=$(echo "$out" | grep -A1 "^VIOLATION" | sed -n 2p | cut -c1-120)
summ=$(echo "$out" | grep -E "^$prop tier" | cut -c1-160)
echo "$(basename $(dirname $p))/$(basename $p) -> $prop $tier $only: exit=$rc violations=$nv first='$first' | $summ"
