import json,sys
for pid in sys.argv[1:]:
    e=json.load(open('/verif/evidence/%s.json'%pid)); c=e['coverage']
    print(pid, e['tier'], 'wall',e['wall_s'], {k:c[k] for k in ('obligations','discharged','entries','paths_enumerated','paths_infeasible','step_lemmas','claims','undecided_count','approx_paths_deferred','traces_validated_against_impl')})
    for n in c['notes'][:12]: print('   note:',n)
    for n in c['undecided'][:12]: print('   undecided:',n)
