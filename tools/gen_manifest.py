#!/usr/bin/env python3
"""Regenerates /verif/MANIFEST.json from the table in props/manifest_table.py"""
import json, os, sys
sys.path.insert(0, os.path.dirname(os.path.dirname(os.path.abspath(__file__))))
from props.manifest_table import CHECKS, NOT_APPLICABLE, ENGINES
props = [json.loads(l) for l in open('/verif/properties.jsonl')]
ids = [p['id'] for p in props]
checks = []
for pid in ids:
    if pid in CHECKS:
        c = CHECKS[pid]
        checks.append({
            'property_id': pid,
            'quick_cmd': 'python3-vt check.py %s --tier quick' % pid,
            'thorough_cmd': 'python3-vt check.py %s --tier thorough' % pid,
            'evidence_file': 'evidence/%s.json' % pid,
            'replay_cmd_template': 'python3-vt tools/replay.py {path}',
            'engine': c.get('engine', 'symx+scsn'),
            'level_claimed': {'category': c['level'], 'text': c['text'], 'design_ref': c.get('design_ref', 'DESIGN.md section 4/' + pid)},
            'level_note': c['note'],
            'technique': c['technique'],
        })
na = [{'property_id': pid, 'reason': NOT_APPLICABLE.get(pid, 'check not built yet (work in progress in this session)')} for pid in ids if pid not in CHECKS]
m = {
    'version': 1,
    'setup_cmd': 'python3-vt tools/setup.py',
    'hooks': {'guard': 'MANIF_VERIF', 'enable': 'checks compile the harness translation units against /repo/include with -DMANIF_VERIF (no hook is currently present in /repo; the symbolic scalar enters through the documented Constants<>/is_ad<> customisation points)',
              'baseline_off_cmd': 'cmake -G Ninja -S /repo -B /repo/_build -DBUILD_TESTING=ON -DCMAKE_BUILD_TYPE=RelWithDebInfo && cmake --build /repo/_build && ctest --test-dir /repo/_build -j8 --timeout 900',
              'source_commits': [], 'add_only': True},
    'engines': ENGINES,
    'checks': checks,
    'notes': 'Solver-based checking of the real code: manif templates executed over a symbolic scalar (symx), canonical forms proposed per DAG node and every step discharged by z3 (SCSN); integer/control-flow parts via LLVM IR / clang AST -> C -> CBMC. See DESIGN.md.',
    'not_applicable': na,
}
json.dump(m, open('/verif/MANIFEST.json', 'w'), indent=1)
print('checks:', [c['property_id'] for c in checks], 'n/a:', [n['property_id'] for n in na])
