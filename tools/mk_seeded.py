#!/usr/bin/env python3
"""Assemble /verif/seeded/<id>/ from the sub-agents' deliverables and my confirmation log."""
import os, json, shutil, re
conf = {}
for l in (open("/tmp/confirm.log") if os.path.exists("/tmp/confirm.log") else []):
    p = l.split(' ', 1); conf[p[0]] = p[1].strip()
DET = json.load(open('/verif/tools/seeded_detection.json'))
for pid in sorted(os.listdir('/tmp')):
    m = re.match(r'out_(C\d+)$', pid)
    if not m: continue
    prop = m.group(1); src = '/tmp/' + pid
    for k in (1, 2, 3):
        pf = os.path.join(src, 'patch%d.diff' % k)
        if not os.path.exists(pf): continue
        sid = '%s_patch%d' % (prop, k); d = os.path.join('/verif/seeded', sid); os.makedirs(d, exist_ok=True)
        shutil.copy(pf, os.path.join(d, 'patch.diff'))
        for f in ('demo%d.cpp' % k, 'demo%d.sh' % k, 'notes%d.md' % k):
            if os.path.exists(os.path.join(src, f)): shutil.copy(os.path.join(src, f), os.path.join(d, ('demo.sh' if f.endswith('.sh') else 'demo.cpp') if f.startswith('demo') else 'notes.md'))
        det = DET.get(sid, {})
        meta = {'breaks_property': prop, 'source': 'independent sub-agent given only the property text and its own scratch worktree of /repo (first batch: pinned commit c1698bc; C04/C07/C08/C10/C16 and C02/C12/C14/C18/C19: /repo HEAD at the time, i.e. with the fix: commits up to d2e4ad8 resp. a64cd05), nothing from /verif',
                'needs_to_manifest': det.get('needs', 'see notes'), 'files': sorted(os.listdir(d)),
                'confirmation': ('by me in the agent worktree: ' + conf[prop]) if (k == 1 and prop in conf) else 'patch applies to /repo (git apply --check); demo and test-suite result as reported by the sub-agent (its scratch copy was deleted; the 15-minute rebuild was not repeated)',
                'checks_run_against_it': det.get('ran', 'not run'), 'caught_by': det.get('caught_by', 'not run against the checks'), 'verdict': det.get('verdict', 'unknown')}
        json.dump(meta, open(os.path.join(d, 'meta.json'), 'w'), indent=1)
print(sorted(os.listdir('/verif/seeded')))
