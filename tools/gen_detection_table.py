#!/usr/bin/env python3
"""Rewrite the detection table of DESIGN.md section 0.3 from tools/seeded_detection.json (rows only; prose stays)."""
import json, re
DET = json.load(open('/verif/tools/seeded_detection.json'))
def key(s):
    m = re.match(r'C(\d+)_patch(\d+)', s); return (int(m.group(1)), int(m.group(2)))
rows = []
for sid in sorted(DET, key=key):
    d = DET[sid]; v = d['verdict']
    res = ('**%s** — %s' % (v, d['caught_by'])) if d.get('caught_by') else '**%s**' % v
    rows.append('| %s | %s | %s |' % (sid, d['needs'].replace('|', '\\|'), res.replace('\n', ' ')))
p = '/verif/DESIGN.md'; s = open(p).read()
i = s.index('| seeded change (seeded/<id>/) |'); j = s.index('\nSummary (', i)
head = '| seeded change (seeded/<id>/) | needs in order to manifest | result |\n|---|---|---|\n'
s = s[:i] + head + '\n'.join(rows) + '\n' + s[j:]
open(p, 'w').write(s)
n = len(DET); c = sum(1 for d in DET.values() if d['verdict'].startswith('caught')); print(n, 'changes', c, 'caught', [k for k, d in DET.items() if not d['verdict'].startswith('caught')])
