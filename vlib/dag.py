"""Loader for the DAG files written by symx/harness.h (symbolic and concrete modes)."""
import sys
from fractions import Fraction

sys.setrecursionlimit(1000000)

class Node:
    __slots__ = ('id', 'op', 'a', 'b', 'c', 'name', 'w')
    def __init__(self, id, op, a, b, c, name, w):
        self.id, self.op, self.a, self.b, self.c, self.name, self.w = id, op, a, b, c, name, w

class Path:
    def __init__(self, idx, outcome, msg):
        self.idx, self.outcome, self.msg = idx, outcome, msg
        self.decisions = []   # (a, cmp, b, taken)   cmp: 0 '<', 1 '<=', 2 '='
        self.hyps = []        # (kind, [ids])
        self.assumes = []     # (a, cmp, b)
        self.claims = []      # (kind 'EQ'|'LE'|'LT', name, l, r)
        self.outs = {}        # name -> id   (symbolic) / value (concrete)
        self.notes = {}
        self.approx = []      # (name, l, r, class): |l-r| <= tolerance of the class (TRUNC claims)
        self.cvals = {}       # concrete mode: claim name -> (lv, rv)

class Entry:
    def __init__(self, name):
        self.name = name; self.nodes = {}; self.paths = []; self.truncated = False

def load(fn):
    entries = []; cur = None; path = None
    for line in open(fn):
        p = line.rstrip('\n').split(' ')
        k = p[0]
        if k == 'ENTRY':
            cur = Entry(p[1]); entries.append(cur)
        elif k == 'N':
            cur.nodes[int(p[1])] = Node(int(p[1]), p[2], int(p[3]), int(p[4]), float.fromhex(p[5]), p[6], float.fromhex(p[7]))
        elif k == 'TRUNCATED':
            cur.truncated = True
        elif k == 'PATH':
            path = Path(int(p[1]), p[2], ' '.join(p[3:])); cur.paths.append(path)
        elif k == 'D':
            path.decisions.append((int(p[1]), int(p[2]), int(p[3]), p[4] == '1'))
        elif k == 'H':
            path.hyps.append((p[1], [int(x) for x in p[2:]]))
        elif k == 'A':
            path.assumes.append((int(p[1]), int(p[2]), int(p[3])))
        elif k in ('EQ', 'LE', 'LT'):
            try:
                path.claims.append((k, p[1], int(p[2]), int(p[3])))
            except ValueError:
                path.cvals[p[1]] = (float.fromhex(p[2]), float.fromhex(p[3]))
                path.claims.append((k, p[1], None, None))
        elif k == 'AP':
            try:
                path.approx.append((p[1], int(p[2]), int(p[3]), p[4]))
            except ValueError:
                path.cvals[p[1]] = (float.fromhex(p[2]), float.fromhex(p[3]))
                path.approx.append((p[1], None, None, p[4]))
        elif k == 'OUT':
            try: path.outs[p[1]] = int(p[2])
            except ValueError: path.outs[p[1]] = float.fromhex(p[2])
        elif k == 'NOTE':
            path.notes[p[1]] = ' '.join(p[2:])
    return entries

def cone(nodes, roots):
    seen = set(); st = list(roots)
    while st:
        i = st.pop()
        if i is None or i < 0 or i in seen: continue
        seen.add(i); n = nodes[i]
        st.append(n.a)
        if n.op != 'round': st.append(n.b)
    return seen

def numeval(nodes, ids, assign=None, mp=None):
    """Evaluate nodes numerically. assign: var node id -> value (default witness). mp: mpmath module or None (float)."""
    import math
    val = {}
    M = mp if mp is not None else math
    conv = (lambda x: mp.mpf(x)) if mp is not None else float
    def fr(c):
        f = Fraction(c)
        return conv(f.numerator) / conv(f.denominator)
    order = sorted(cone(nodes, ids))
    for i in order:
        n = nodes[i]; op = n.op
        if op == 'var': v = conv(assign[i]) if assign and i in assign else conv(n.w)
        elif op == 'const': v = fr(n.c)
        elif op == 'add': v = val[n.a] + val[n.b]
        elif op == 'sub': v = val[n.a] - val[n.b]
        elif op == 'mul': v = val[n.a] * val[n.b]
        elif op == 'div': v = val[n.a] / val[n.b] if val[n.b] != 0 else conv('nan')
        elif op == 'neg': v = -val[n.a]
        elif op == 'abs': v = abs(val[n.a])
        elif op == 'sqrt': v = M.sqrt(val[n.a]) if val[n.a] >= 0 else conv('nan')
        elif op == 'atan2': v = M.atan2(val[n.a], val[n.b])
        elif op == 'round': v = conv(float(val[n.a])) if n.b >= 52 else conv(__import__('struct').unpack('f', __import__('struct').pack('f', float(val[n.a])))[0])
        elif op in ('sin', 'cos', 'tan', 'asin', 'acos', 'atan', 'exp', 'log'):
            try: v = getattr(M, op)(val[n.a])
            except Exception: v = conv('nan')
        elif op == 'cbrt': v = M.cbrt(val[n.a])
        else: raise Exception('numeval: op ' + op)
        val[i] = v
    return val
