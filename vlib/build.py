"""Build harness binaries from /repo's current working tree. Cached under /verif/.work keyed by a hash of
/repo/include, /repo/external/tl, the harness source, symx headers and flags."""
import os, hashlib, subprocess, time, json
from concurrent.futures import ThreadPoolExecutor

VERIF = os.path.dirname(os.path.dirname(os.path.abspath(__file__)))
REPO = os.environ.get('VERIF_REPO', '/repo')
WORK = os.path.join(VERIF, '.work')
INC = ['-I' + os.path.join(VERIF, 'symx'), '-I' + os.path.join(REPO, 'include'), '-I' + os.path.join(REPO, 'external/tl'), '-isystem', '/usr/include/eigen3']
GUARD = '-DMANIF_VERIF'

_tree_hash = None
def tree_hash():
    global _tree_hash
    if _tree_hash: return _tree_hash
    h = hashlib.sha256()
    for root in (os.path.join(REPO, 'include'), os.path.join(REPO, 'external/tl'), os.path.join(VERIF, 'symx')):
        for dp, dn, fn in sorted(os.walk(root)):
            dn.sort()
            for f in sorted(fn):
                p = os.path.join(dp, f)
                h.update(p.encode()); h.update(open(p, 'rb').read())
    _tree_hash = h.hexdigest()[:16]
    return _tree_hash

def mode_flags(mode):
    """mode: sym | symdbg | symf | double | doubledbg | float"""
    base = ['-std=c++11', '-w', GUARD]
    if mode == 'sym': return base + ['-O0', '-DNDEBUG', '-DHSCALAR_SYM']
    if mode == 'symdbg': return base + ['-O0', '-DHSCALAR_SYM']
    if mode == 'symasan': return base + ['-O0', '-g', '-DNDEBUG', '-DHSCALAR_SYM', '-fsanitize=address', '-fno-omit-frame-pointer']
    if mode == 'symf': return base + ['-O0', '-DNDEBUG', '-DHSCALAR_SYM', '-DSYM_FLOAT_PROFILE']
    if mode == 'double': return base + ['-O1', '-DNDEBUG', '-DHSCALAR_DOUBLE']
    if mode == 'doubledbg': return base + ['-O1', '-DHSCALAR_DOUBLE']
    if mode == 'float': return base + ['-O1', '-DNDEBUG', '-DHSCALAR_FLOAT']
    raise Exception(mode)

def target(src, defs, mode, extra=()):
    """Returns (binary path, command list)"""
    srcp = os.path.join(VERIF, 'harness', src)
    h = hashlib.sha256()
    h.update(tree_hash().encode()); h.update(open(srcp, 'rb').read()); h.update(repr((sorted(defs), mode, tuple(extra))).encode())
    import re as _re
    for inc in _re.findall(r'#include "([^"]+)"', open(srcp).read()):      # headers living next to the harness source
        ip = os.path.join(os.path.dirname(srcp), inc)
        if os.path.exists(ip): h.update(open(ip, 'rb').read())
    key = h.hexdigest()[:16]
    name = os.path.splitext(src)[0] + '_' + '_'.join(d.replace('=', '-').replace('<', '').replace('>', '').replace(',', '-').replace(':', '') for d in defs)[:80] + '_' + mode + '_' + key
    out = os.path.join(WORK, 'bin', name)
    cmd = ['g++'] + mode_flags(mode) + ['-D' + d for d in defs] + list(extra) + INC + [srcp, '-o', out]
    return out, cmd

def build_all(targets, jobs=16):
    """targets: list of (src, defs, mode[, extra]). Returns list (binary or None, error text, seconds) aligned with targets.
    Identical targets are built once."""
    import threading, uuid
    os.makedirs(os.path.join(WORK, 'bin'), exist_ok=True)
    uniq = {}
    for t in targets:
        out, cmd = target(*t)
        uniq.setdefault(out, cmd)
    results = {}
    def one(item):
        out, cmd = item
        if os.path.exists(out): return out, (out, '', 0.0)
        t0 = time.time()
        tmp = out + '.%s.tmp' % uuid.uuid4().hex[:8]
        r = subprocess.run(cmd[:-1] + [tmp], capture_output=True, text=True)
        if r.returncode != 0:
            try: os.unlink(tmp)
            except OSError: pass
            return out, (None, r.stderr[-6000:], time.time() - t0)
        os.replace(tmp, out)
        return out, (out, '', time.time() - t0)
    with ThreadPoolExecutor(jobs) as ex:
        for out, r in ex.map(one, list(uniq.items())): results[out] = r
    return [results[target(*t)[0]] for t in targets]

def run_harness(binary, outfile, args=(), timeout=600):
    r = subprocess.run([binary, outfile] + list(args), capture_output=True, text=True, timeout=timeout)
    return r.returncode, r.stdout + r.stderr
