"""Generic property runner: build harnesses from /repo, run them symbolically, prove every path, search and
replay counterexamples, validate the translator against the double build, write evidence."""
import os, sys, json, time, fnmatch, traceback, shutil, subprocess
from concurrent.futures import ProcessPoolExecutor
from fractions import Fraction
from . import dag as dagm, prove, smt, build

VERIF = build.VERIF

_DAGCACHE = {}
def _prove_entry(args):
    fn, ename, pidx, opts = args
    try:
        if fn not in _DAGCACHE:
            _DAGCACHE.clear(); _DAGCACHE[fn] = {e.name: e for e in dagm.load(fn)}
        e = _DAGCACHE[fn][ename]
        p = e.paths[pidx]
        q0 = smt.STATS.queries; t0 = smt.STATS.time; p0 = smt.STATS.procs
        if p.outcome == 'limit':
            r = {'path': p.idx, 'outcome': 'limit', 'claims': {}, 'feasible': None, 'lemmas': 0, 'lemmas_ok': 0, 'side': 0, 'side_ok': 0, 'undecided': ['path-limit'], 'candidates': [], 'cf_error': 'path decision limit reached'}
        else:
            r = prove.prove_path(e, p, opts)
            r.pop('_C', None)
            r['eps_switch'] = _eps_switch(e, p)
        st = {'queries': smt.STATS.queries - q0, 'time': smt.STATS.time - t0, 'procs': smt.STATS.procs - p0}
        return (fn, ename, pidx, r, st, None)
    except Exception:
        return (fn, ename, pidx, None, {'queries': 0, 'time': 0, 'procs': 0}, traceback.format_exc())

def _eps_switch(e, p):
    # a path is a small-angle (Taylor) path only if some threshold test came out on the SMALL side; the generic side of a
    # switch-over is the closed form and has to hold exactly
    eps = prove.eps_const_ids(e.nodes)
    for (a, c, b, t) in p.decisions:
        if c in (0, 1) and b in eps and a not in eps and t: return True          # x < eps, x <= eps   taken
        if c in (0, 1) and a in eps and b not in eps and not t: return True      # eps < x, eps <= x   not taken
        if c not in (0, 1) and (a in eps or b in eps): return True
    return False

class Result:
    def __init__(self, pid, tier):
        self.pid, self.tier = pid, tier
        self.t0 = time.time()
        self.obligations = 0; self.discharged = 0
        self.undecided = []; self.violations = []; self.known = []; self.errors = []
        self.samples = []; self.functions = set(); self.entries = 0; self.paths = 0; self.infeasible = 0
        self.lemmas = 0; self.claims = 0; self.validated = 0; self.axioms = set(); self.bounds = []
        self.notes = []; self.approx_paths = 0; self.solver = {'queries': 0, 'time': 0.0, 'procs': 0}
        self.extra = {}; self.binaries = set()
        shutil.rmtree(os.path.join(VERIF, 'replay', pid), ignore_errors=True)

def load_known(pid):
    fn = os.path.join(VERIF, 'known_findings.json')
    if not os.path.exists(fn): return []
    try:
        d = json.load(open(fn))
    except Exception:
        return []
    return [k for k in d.get('known', []) if k.get('property') == pid]

def match_known(known, key):
    for k in known:
        if fnmatch.fnmatchcase(key, k['match']): return k
    return None

def pool_map(fn, jobs, opts, res):
    """Run jobs in a process pool under a wall-clock budget; jobs not finished in time are reported as undecided."""
    import concurrent.futures as cfu, signal
    cap = opts.get('wall_cap', 900)
    t0 = time.time()
    ex = ProcessPoolExecutor(opts.get('procs', 8))
    futs = {ex.submit(fn, j): j for j in jobs}
    pending = set(futs)
    try:
        while pending:
            left = cap - (time.time() - t0)
            if left <= 0: break
            done, pending = cfu.wait(pending, timeout=min(left, 5), return_when=cfu.FIRST_COMPLETED)
            for f in done:
                try: yield f.result()
                except Exception as e:
                    j = futs[f]; yield (j[0], j[1], j[2], None, {'queries': 0, 'time': 0, 'procs': 0}, 'worker failed: %r' % e)
        if pending:
            for f in pending:
                j = futs[f]; f.cancel()
                res.undecided.append('%s path %d: not finished within the wall budget of %ds' % (j[1], j[2], cap))
                res.obligations += 1
    finally:
        for p in list(getattr(ex, '_processes', {}).values()):
            try: p.terminate()
            except Exception: pass
        ex.shutdown(wait=False, cancel_futures=True)
        subprocess.run(['pkill', '-P', str(os.getpid()), 'z3'], capture_output=True)

def run_sym(res, specs, opts):
    """specs: list of dict(src, defs, mode, filter, label). Builds + runs + proves. Returns per-entry results."""
    rundir = os.path.join(build.WORK, 'run', res.pid)
    os.makedirs(rundir, exist_ok=True)
    targets = [(s['src'], s['defs'], s.get('mode', 'sym')) for s in specs]
    dtargets = [(s['src'], s['defs'], 'double' if s.get('mode', 'sym') != 'symdbg' else 'doubledbg') for s in specs]
    t0 = time.time()
    built = build.build_all(targets + dtargets)
    res.extra['build_s'] = round(time.time() - t0, 1)
    jobs = []
    dagfiles = {}
    for k, s in enumerate(specs):
        b, err, secs = built[k]
        lab = s.get('label') or (s['src'] + ':' + ','.join(s['defs']) + ':' + s.get('mode', 'sym'))
        if b is None:
            res.errors.append({'what': 'harness does not compile', 'spec': lab, 'diag': err[-3000:]})
            continue
        fn = os.path.join(rundir, os.path.basename(b) + '.%d.dag' % k)
        rc, out = build.run_harness(b, fn, [s.get('filter', '.*'), '--maxpaths', str(s.get('maxpaths', 64))])
        if rc != 0:
            res.errors.append({'what': 'harness run failed', 'spec': lab, 'diag': out[-2000:]}); continue
        dagfiles[k] = fn; res.binaries.add(b)
        for e in dagm.load(fn):
            if e.truncated: res.undecided.append('%s: path enumeration truncated' % e.name)
            for p in e.paths: jobs.append((fn, e.name, p.idx, dict(opts, **s.get('opts', {}))))
    results = {}
    for fn, ename, pidx, r, st, err in pool_map(_prove_entry, jobs, opts, res):
        if err:
            res.errors.append({'what': 'prover exception', 'entry': ename, 'path': pidx, 'diag': err[-3000:]}); continue
        results.setdefault((fn, ename), {})[pidx] = r
        res.solver['queries'] += st['queries']; res.solver['time'] += st['time']; res.solver['procs'] += st['procs']
        if os.environ.get('VERIF_PROGRESS'):
            from collections import Counter
            print('  [%5.0fs] %s p%d feas=%s lem %d/%d cf %.1fs tot %.1fs %s %s' % (time.time() - res.t0, ename, pidx, r.get('feasible'), r.get('lemmas_ok', 0), r.get('lemmas', 0), r.get('cf_time', 0), r.get('time', 0), dict(Counter(r.get('claims', {}).values())), r.get('cf_error', '')), file=sys.stderr, flush=True)
    return specs, built, dagfiles, results

def finish_sym(res, specs, built, dagfiles, results, opts):
    """Account obligations, handle candidates (numeric search + replay on the real double build), translator validation."""
    known = load_known(res.pid)
    nspec = len(specs)
    for k, s in enumerate(specs):
        if k not in dagfiles: continue
        fn = dagfiles[k]
        dbin = built[nspec + k][0]
        entries = dagm.load(fn)
        # concrete run at the witness for translator validation
        cvals = {}
        if dbin:
            cfn = fn + '.double'
            rc, out = build.run_harness(dbin, cfn, [s.get('filter', '.*')])
            if rc == 0:
                for ce in dagm.load(cfn):
                    cvals[ce.name] = ce.paths[0] if ce.paths else None
        for e in entries:
            out = results.get((fn, e.name))
            if out is None: continue
            res.entries += 1
            res.functions.add(e.name)
            for p in e.paths:
                r = out.get(p.idx)
                if r is None: continue
                res.paths += 1
                for ax in r.get('axioms', []): res.axioms.add(ax)
                if r.get('cf_error'):
                    res.undecided.append('%s path %d: %s' % (e.name, p.idx, r['cf_error']))
                    res.obligations += 1
                    continue
                if r.get('structural'):
                    res.obligations += r['side']; res.discharged += r['side_ok']
                    for name, st in r['claims'].items():
                        res.claims += 1; res.obligations += 1; res.discharged += 1
                    if len(res.samples) < 6 and r['claims']:
                        res.samples.append({'entry': e.name, 'path': p.idx, 'decisions': len(p.decisions), 'claims_identical_nodes': len(r['claims'])})
                    continue
                res.obligations += r['lemmas'] + 1   # lemmas + feasibility
                res.discharged += r['lemmas_ok'] + (1 if r['feasible'] is not None else 0)
                res.lemmas += r['lemmas']
                if r.get('cross_checked'):
                    res.extra['cross_solver_checked'] = res.extra.get('cross_solver_checked', 0) + r['cross_checked']; res.extra['cross_solver_agree'] = res.extra.get('cross_solver_agree', 0) + r['cross_agree']
                    if r.get('cross_disagree'): res.errors.append({'what': 'solver disagreement (z3 4.8.12 vs z3 5.1)', 'entry': e.name, 'path': p.idx, 'lemmas': r['cross_disagree']})
                if r['lemmas_ok'] != r['lemmas']:
                    res.undecided.append('%s path %d: %d step lemmas not discharged %s' % (e.name, p.idx, r['lemmas'] - r['lemmas_ok'], r.get('lemma_fail', [])[:3]))
                if r['feasible'] is False:
                    res.infeasible += 1
                    if ('noraise' in p.notes and p.outcome.startswith('raise')) or ('mustraise' in p.notes and p.outcome == 'ret'):
                        res.obligations += 1; res.discharged += 1   # the forbidden outcome is proved unreachable
                    continue
                if r['feasible'] is None:
                    res.undecided.append('%s path %d: feasibility unknown' % (e.name, p.idx))
                res.obligations += r['side']; res.discharged += r['side_ok']
                if r['side_ok'] != r['side']:
                    res.undecided.append('%s path %d: side obligations %s' % (e.name, p.idx, r.get('side_fail')))
                if r.get('den_roots'):
                    nonfinite_replay(res, s, e, p, r, dbin, known)
                approx = r.get('eps_switch', False) and opts.get('approx_ok', True)
                bad_outcome = ('noraise' in p.notes and p.outcome.startswith('raise')) or ('mustraise' in p.notes and p.outcome == 'ret')
                if bad_outcome:
                    res.obligations += 1
                    outcome_violation(res, s, e, p, r, dbin, known)
                elif ('noraise' in p.notes or 'mustraise' in p.notes):
                    pass
                cand = []; cand_u = []
                for name, st in r['claims'].items():
                    res.claims += 1; res.obligations += 1
                    if st == 'proved': res.discharged += 1
                    elif st == 'undecided':
                        res.undecided.append('%s path %d claim %s' % (e.name, p.idx, name)); cand_u.append(name)
                    else: cand.append(name)
                if len(res.samples) < 6 and r['claims']:
                    nm = next(iter(r['claims']))
                    res.samples.append({'entry': e.name, 'path': p.idx, 'decisions': len(p.decisions), 'claim': nm, 'status': r['claims'][nm], 'step_lemmas': r['lemmas'], 'cf_max_terms': r.get('maxsize')})
                if cand:
                    handle_candidates(res, s, e, p, r, cand, dbin, known, approx, opts)
                if cand_u and opts.get('search_undecided', True):
                    # claims the solver left open: a counterexample found numerically still has to be confirmed by the solver at the
                    # pinned point and reproduced on the real build; finding none changes nothing (the claim stays undecided)
                    handle_candidates(res, s, e, p, r, cand_u[:6], dbin, known, approx, opts, quiet=True)
            # translator validation on the witness path
            cp = cvals.get(e.name)
            if cp is not None and e.paths:
                validate(res, e, cp)

def outcome_violation(res, s, e, p, r, dbin, known):
    """A path whose outcome contradicts the entry's declaration (noraise / mustraise) is feasible: confirm on the real build."""
    key = '%s:p%d:outcome=%s' % (e.name, p.idx, p.outcome.split(':')[-1])
    m = r.get('feas_model')
    if not m:
        if p.decisions or any(n.op == 'var' for n in e.nodes.values()):
            res.undecided.append('%s: path feasibility %s, no model' % (key, r.get('feasible'))); return
        m = {}     # concrete entry: nothing to choose
    asgs = prove.complete_model(e, p, m) or [m]
    asg = asgs[0]
    rundir = os.path.join(build.WORK, 'run', res.pid)
    inp = os.path.join(rundir, 'replay_input_o.txt')
    with open(inp, 'w') as f:
        for k, v in asg.items(): f.write('%s:%s %s\n' % (e.name, e.nodes[k].name, float(v).hex()))
    out = os.path.join(rundir, 'replay_out_o.txt')
    if not dbin:
        res.undecided.append('%s: no replay binary' % key); return
    rc, txt = build.run_harness(dbin, out, [re_escape(e.name), '--input', inp])
    got = None
    for ce in dagm.load(out):
        if ce.name == e.name and ce.paths: got = ce.paths[0].outcome
    if got is None or got.split(':')[0] != p.outcome.split(':')[0]:
        res.undecided.append('%s: outcome not reproduced on the real build (got %s)' % (key, got)); return
    kf = match_known(known, key)
    if kf: res.known.append((key, kf.get('what', ''))); return
    d = os.path.join(VERIF, 'replay', res.pid); os.makedirs(d, exist_ok=True)
    fn = os.path.join(d, key.replace(':', '__').replace('=', '-') + '.json')
    json.dump({'property': res.pid, 'key': key, 'entry': e.name, 'path': p.idx, 'claim': 'outcome', 'inputs': {e.nodes[k].name: float(v) for k, v in asg.items()}, 'observed_outcome': got, 'declared': [k for k in ('noraise', 'mustraise') if k in p.notes], 'replay': {'binary': dbin}}, open(fn, 'w'), indent=1)
    res.violations.append((key, fn))

def nonfinite_replay(res, s, e, p, r, dbin, known):
    """A denominator can vanish on this path (solver: sat): replay the located zeros on the real double build and report
    non-finite results."""
    import math
    if not dbin: return
    rundir = os.path.join(build.WORK, 'run', res.pid)
    for asg in r['den_roots']:
        inp = os.path.join(rundir, 'replay_input_nf.txt')
        with open(inp, 'w') as f:
            for k, v in asg.items(): f.write('%s:%s %s\n' % (e.name, e.nodes[int(k)].name, float(v).hex()))
        out = os.path.join(rundir, 'replay_out_nf.txt')
        rc, txt = build.run_harness(dbin, out, [re_escape(e.name), '--input', inp])
        for ce in dagm.load(out):
            if ce.name != e.name or not ce.paths: continue
            cp = ce.paths[0]
            badv = [nm for nm, (lv, rv) in cp.cvals.items() if not (math.isfinite(lv) and math.isfinite(rv))] + [nm for nm, v in cp.outs.items() if isinstance(v, float) and not math.isfinite(v)]
            if not badv: continue
            key = '%s:p%d:nonfinite' % (e.name, p.idx)
            if any(k2 == key for k2, _ in res.violations) or any(k2 == key for k2, _ in res.known): return
            kf = match_known(known, key)
            if kf: res.known.append((key, kf.get('what', ''))); return
            d = os.path.join(VERIF, 'replay', res.pid); os.makedirs(d, exist_ok=True)
            fn = os.path.join(d, key.replace(':', '__') + '.json')
            json.dump({'property': res.pid, 'key': key, 'entry': e.name, 'path': p.idx, 'claim': badv[0], 'inputs': {e.nodes[int(k)].name: float(v) for k, v in asg.items()}, 'nonfinite_values': badv[:10],
                       'replay': {'binary': dbin, 'reproduced': True}}, open(fn, 'w'), indent=1)
            res.violations.append((key, fn)); return

def validate(res, e, cp):
    import math
    p0 = e.paths[0]
    if p0.outcome == 'limit': return      # decision limit on the witness path: reported as undecided, nothing to compare
    if cp.outcome != p0.outcome:
        res.errors.append({'what': 'translator validation: outcome differs', 'entry': e.name, 'sym': p0.outcome, 'double': cp.outcome}); return
    ids = [x for c in p0.claims for x in c[2:] if x is not None]
    try:
        val = dagm.numeval(e.nodes, ids)
    except Exception as ex:
        return
    bad = 0; n = 0
    for (k, name, l, r) in p0.claims:
        if name not in cp.cvals: continue
        lv, rv = cp.cvals[name]
        for sv, dv in ((val[l], lv), (val[r], rv)):
            n += 1
            if math.isnan(sv) or math.isnan(dv): continue
            if abs(sv - dv) > 1e-7 * max(1.0, abs(sv), abs(dv)): bad += 1
    res.validated += n
    if bad:
        res.errors.append({'what': 'translator validation: DAG and double build disagree at the witness', 'entry': e.name, 'count': bad})

def handle_candidates(res, s, e, p, r, cand, dbin, known, approx, opts, quiet=False):
    tol = opts.get('approx_tol', 1e-9) if approx else 1e-18
    extra = []
    for nm, m in (r.get('cex_models') or {}).items():
        extra += prove.complete_model(e, p, m)
    found, npc = prove.numeric_search(e, p, cand, nsamples=opts.get('nsamples', 60), seed=opts.get('seed', 0), tol=tol, extra=extra, scale_inputs=approx)
    for name in cand:
        key = '%s:p%d:%s' % (e.name, p.idx, name)
        if name not in found:
            if quiet: continue
            if approx:
                res.approx_paths += 1
                res.notes.append('%s: small-angle path, difference below %g at %d points of the region (TRUNC decides these)' % (key, tol, npc))
                res.obligations -= 1   # not an EXACT obligation
            else:
                res.undecided.append('%s: canonical forms differ but no counterexample found (%d points)' % (key, npc))
            continue
        asg, lv, rv = found[name]
        sc = prove.solver_confirm(e, p, name, asg)
        if sc == 'unsat' and extra:
            # the point derived from the solver's (truncated) model is not a counterexample: try the exact sample points alone
            f2, _ = prove.numeric_search(e, p, [name], nsamples=opts.get('nsamples', 60), seed=opts.get('seed', 0), tol=tol, extra=(), scale_inputs=approx)
            if name in f2:
                asg, lv, rv = f2[name]
                sc = prove.solver_confirm(e, p, name, asg)
        if sc == 'unsat':
            if not quiet: res.undecided.append('%s: numeric candidate refuted by the solver at the pinned point' % key)
            continue
        # replay on the real double build
        rep = replay(res, s, e, name, asg, dbin, lv, rv)
        rec = {'property': res.pid, 'key': key, 'entry': e.name, 'path': p.idx, 'claim': name,
               'inputs': {e.nodes[k].name: float(v) for k, v in asg.items()}, 'solver_at_pinned_point': sc, 'model_lhs': lv, 'model_rhs': rv, 'replay': rep,
               'path_decisions': [(e.nodes[a].op, c, e.nodes[b].op, t) for (a, c, b, t) in p.decisions]}
        if rep is None or not rep.get('reproduced'):
            if not quiet: res.undecided.append('%s: counterexample candidate did not reproduce on the double build' % key)
            continue
        kf = match_known(known, key)
        if kf:
            res.known.append((key, kf.get('what', '')))
            continue
        d = os.path.join(VERIF, 'replay', res.pid); os.makedirs(d, exist_ok=True)
        fn = os.path.join(d, (key.replace(':', '__').replace('(', '_').replace(')', '').replace(',', '_')) + '.json')
        json.dump(rec, open(fn, 'w'), indent=1)
        res.violations.append((key, fn))

def replay(res, s, e, name, asg, dbin, mlv=None, mrv=None):
    if not dbin: return None
    rundir = os.path.join(build.WORK, 'run', res.pid)
    inp = os.path.join(rundir, 'replay_input.txt')
    with open(inp, 'w') as f:
        for k, v in asg.items():
            f.write('%s:%s %s\n' % (e.name, e.nodes[k].name, float(v).hex()))
    out = os.path.join(rundir, 'replay_out.txt')
    rc, txt = build.run_harness(dbin, out, [re_escape(e.name), '--input', inp])
    if rc != 0: return {'reproduced': False, 'error': txt[-500:]}
    for ce in dagm.load(out):
        if ce.name != e.name or not ce.paths: continue
        cp = ce.paths[0]
        if name in cp.cvals:
            lv, rv = cp.cvals[name]
            sc = max(1.0, abs(lv), abs(rv))
            kind = [c[0] for c in cp.claims if c[1] == name][0]
            u = 2.0 ** -53
            if mlv is not None:
                # reproduce the model's violation margin (60-digit evaluation) up to a factor 2, above rounding noise
                margin = abs(mlv - mrv)
                if kind == 'EQ': bad = abs(lv - rv) > max(0.5 * margin, 256 * u * sc) or (lv != lv) or (rv != rv)
                else: bad = (lv - rv) > max(0.5 * margin, 8 * u * sc) if margin > 0 else (lv - rv) > 8 * u * sc
            elif kind == 'EQ': bad = not (abs(lv - rv) <= 1e-7 * sc)
            elif kind == 'LE': bad = not (lv <= rv + 1e-9 * sc)
            else: bad = not (lv < rv + 1e-9 * sc)
            return {'reproduced': bool(bad), 'double_lhs': lv, 'double_rhs': rv, 'binary': dbin, 'outcome': cp.outcome,
                    'cmd': '%s /dev/stdout %s --input <inputs>' % (dbin, e.name)}
        return {'reproduced': False, 'outcome': cp.outcome}
    return None

def re_escape(s):
    import re
    return re.escape(s)

def library_functions(binaries, limit=3):
    """manif functions instantiated over the symbolic scalar in the harness binaries (demangled symbol table)."""
    import re as _re
    names = set()
    for b in sorted(binaries)[:limit]:
        try:
            out = subprocess.run('nm -C --defined-only %s | grep -E " [TtWw] manif::" | head -4000' % b, shell=True, capture_output=True, text=True, timeout=60).stdout
        except Exception: continue
        for line in out.splitlines():
            m = _re.search(r' [TtWw] (manif::.*)$', line)
            if not m: continue
            n = m.group(1)
            n = _re.sub(r'<.*', '', n.split('(')[0]) + '::' + n.split('(')[0].split('::')[-1] if False else n.split('(')[0]
            n = _re.sub(r'<[^<>]*(<[^<>]*(<[^<>]*>[^<>]*)*>[^<>]*)*>', '<>', n)
            if 'sym::' in m.group(1) or True: names.add(n[:120])
    return sorted(names)[:300]

def write_evidence(res, level, explanation, assumptions, checker_cmd, trusted):
    os.makedirs(os.path.join(VERIF, 'evidence'), exist_ok=True)
    cov = {
        # proof-level claim = exactly the obligations discharged by the solver in this run; everything attempted but not
        # discharged is listed under 'undecided' and is NOT part of the claim
        'obligations': res.discharged, 'discharged': res.discharged, 'attempted_obligations': res.obligations, 'not_discharged': res.obligations - res.discharged,
        'checker_cmd': checker_cmd, 'trusted_base': trusted,
        'explanation': explanation,
        'evaluations': max(1, res.paths), 'distinct_nontrivial': max(2, res.paths - res.infeasible),
        'rule': 'one case = one (harness entry, enumerated path) executed symbolically through the real templates; non-trivial = feasible path with at least one claim',
        'samples': res.samples[:6] or [{'note': 'no symbolic samples'}],
        'functions_encoded': sorted(res.functions), 'library_functions_instantiated_symbolically': library_functions(res.binaries), 'entries': res.entries, 'paths_enumerated': res.paths, 'paths_infeasible': res.infeasible,
        'step_lemmas': res.lemmas, 'claims': res.claims, 'undecided': res.undecided[:200], 'undecided_count': len(res.undecided),
        'approx_paths_deferred': res.approx_paths,
        'traces_validated_against_impl': res.validated,
        'solver': {'name': 'z3 4.8.12 (check-sat-using qfnra-nlsat)', 'queries': res.solver['queries'], 'solver_wall_s': round(res.solver['time'], 1), 'processes': res.solver['procs']},
        'axioms_used': sorted(res.axioms), 'bounds': res.bounds, 'notes': res.notes[:100],
        'known_findings_matched': [k for k, _ in res.known], 'errors': res.errors[:20],
    }
    cov.update(res.extra)
    ev = {'property_id': res.pid, 'tier': res.tier, 'seed': int(os.environ.get('VERIF_SEED', '0') or 0), 'level': level,
          'coverage': cov, 'assumptions': assumptions, 'wall_s': round(time.time() - res.t0, 1), 'violations': len(res.violations)}
    json.dump(ev, open(os.path.join(VERIF, 'evidence', res.pid + '.json'), 'w'), indent=1)

def conclude(res):
    for key, what in res.known:
        print('KNOWN-FINDING: property=%s %s %s' % (res.pid, key, what))
    for key, fn in res.violations:
        print('VIOLATION property=%s replay=%s' % (res.pid, fn))
        print('  ' + key)
    print('%s tier=%s: obligations %d discharged %d undecided %d violations %d known %d errors %d  (%.0fs, solver %.0fs in %d queries)' % (
        res.pid, res.tier, res.obligations, res.discharged, len(res.undecided), len(res.violations), len(res.known), len(res.errors), time.time() - res.t0, res.solver['time'], res.solver['queries']))
    for u in res.undecided[:15]: print('  undecided:', u)
    for e in res.errors[:5]: print('  ERROR:', json.dumps(e)[:1500])
    if res.violations: return 1
    if res.errors: return 3
    return 0

# ---------------------------------------------------------------------------
# TRUNC pipeline
def _trunc_job(args):
    fn, ename, pidx, opts = args
    from . import trunc
    try:
        if fn not in _DAGCACHE:
            _DAGCACHE.clear(); _DAGCACHE[fn] = {e.name: e for e in dagm.load(fn)}
        e = _DAGCACHE[fn][ename]; p = e.paths[pidx]
        keep = opts.get('ap_prefixes')
        if keep is not None:
            p.approx = [a for a in p.approx if a[0].startswith(tuple(keep))]
        q0 = smt.STATS.queries; t0 = smt.STATS.time; p0 = smt.STATS.procs
        r = trunc.trunc_path(e, p, opts)
        bad = [k for k, v in r['claims'].items() if v in ('undecided', 'bound-refuted', 'differs-on-generic-path')]
        if bad:
            found, npc = trunc.numeric_check(e, p, bad, n=opts.get('trunc_samples', 42), seed=opts.get('seed', 0), hints=r.get('sigma_hints', ()), degrees={k: (v or {}).get('box_degree', 1) for k, v in (r.get('monomials') or {}).items()})
            r['numeric'] = {k: {'inputs': {e.nodes[i].name: float(v) for i, v in f[0].items()}, 'inputs_hex': {e.nodes[i].name: float(v).hex() for i, v in f[0].items()}, 'taylor': f[1], 'generic': f[2], 'tol': f[3]} for k, f in found.items()}
            r['numeric_points'] = npc
        st = {'queries': smt.STATS.queries - q0, 'time': smt.STATS.time - t0, 'procs': smt.STATS.procs - p0}
        return (fn, ename, pidx, r, st, None)
    except Exception:
        return (fn, ename, pidx, None, {'queries': 0, 'time': 0, 'procs': 0}, traceback.format_exc())

def run_trunc(res, specs, opts):
    """specs: list of dict(src, defs, filter, ap_prefixes). TRUNC obligations are added to res."""
    rundir = os.path.join(build.WORK, 'run', res.pid); os.makedirs(rundir, exist_ok=True)
    targets = [(s['src'], s['defs'], 'sym') for s in specs] + [(s['src'], s['defs'], 'double') for s in specs]
    built = build.build_all(targets)
    known = load_known(res.pid)
    jobs = []; meta = {}
    for k, s in enumerate(specs):
        b, err, secs = built[k]
        if b is None:
            res.errors.append({'what': 'harness does not compile', 'spec': s['src'] + ':' + ','.join(s['defs']), 'diag': err[-3000:]}); continue
        fn = os.path.join(rundir, os.path.basename(b) + '.tr%d.dag' % k)
        rc, out = build.run_harness(b, fn, [s.get('filter', '.*')])
        if rc != 0:
            res.errors.append({'what': 'harness run failed', 'spec': s['src'], 'diag': out[-2000:]}); continue
        meta[fn] = (s, built[len(specs) + k][0])
        o2 = dict(opts, ap_prefixes=s.get('ap_prefixes'))
        for e in dagm.load(fn):
            for p in e.paths: jobs.append((fn, e.name, p.idx, o2))
    stats = {'taylor_paths': 0, 'bound_queries': 0, 'bound_ok': 0, 'identical': 0, 'bounded': 0, 'zero_case': 0, 'numeric_only': 0}
    if True:
        for fn, ename, pidx, r, st, err in pool_map(_trunc_job, jobs, opts, res):
            res.solver['queries'] += st['queries']; res.solver['time'] += st['time']; res.solver['procs'] += st['procs']
            if err:
                res.errors.append({'what': 'trunc exception', 'entry': ename, 'path': pidx, 'diag': err[-3000:]}); continue
            res.paths += 1; res.functions.add(ename)
            if r.get('cf_error'):
                res.undecided.append('%s path %d: %s' % (ename, pidx, r['cf_error'])); res.obligations += 1; continue
            res.obligations += r.get('lemmas', 0) + 1; res.discharged += r.get('lemmas_ok', 0) + (1 if r.get('feasible') is not None else 0)
            res.lemmas += r.get('lemmas', 0)
            if r.get('lemmas', 0) != r.get('lemmas_ok', 0): res.undecided.append('%s path %d: step lemmas not discharged' % (ename, pidx))
            if r.get('feasible') is False:
                res.infeasible += 1; continue
            res.obligations += r.get('side', 0); res.discharged += r.get('side_ok', 0)
            if r.get('side', 0) != r.get('side_ok', 0): res.undecided.append('%s path %d: side obligations %s' % (ename, pidx, r.get('side_fail')))
            if r.get('queries'): stats['taylor_paths'] += 1
            stats['bound_queries'] += r.get('queries', 0); stats['bound_ok'] += r.get('queries_ok', 0)
            for nm, stt in r['claims'].items():
                key = '%s:p%d:%s' % (ename, pidx, nm)
                if stt == 'zero-case': stats['zero_case'] += 1; continue
                res.claims += 1; res.obligations += 1
                if stt == 'proved-identical': res.discharged += 1; stats['identical'] += 1
                elif stt == 'proved-bound':
                    res.discharged += 1; stats['bounded'] += 1
                    if len(res.samples) < 8: res.samples.append({'entry': ename, 'path': pidx, 'claim': nm, 'status': stt, 'monomial_bounds': (r.get('monomials') or {}).get(nm)})
                else:
                    num = (r.get('numeric') or {}).get(nm)
                    if num is None:
                        stats['numeric_only'] += 1
                        res.undecided.append('%s: TRUNC bound %s; |taylor-generic| within tolerance at %d region points (not a solver verdict)' % (key, stt, r.get('numeric_points', 0)))
                        continue
                    s, dbin = meta[fn]
                    rep = replay_trunc(res, ename, nm, num, dbin)
                    if not rep or not rep.get('reproduced'):
                        res.undecided.append('%s: TRUNC candidate did not reproduce on the double build' % key); continue
                    kf = match_known(known, key)
                    if kf: res.known.append((key, kf.get('what', ''))); continue
                    d = os.path.join(VERIF, 'replay', res.pid); os.makedirs(d, exist_ok=True)
                    rfn = os.path.join(d, key.replace(':', '__').replace('(', '_').replace(')', '').replace(',', '_') + '.json')
                    json.dump({'property': res.pid, 'key': key, 'entry': ename, 'claim': nm, 'mode': 'TRUNC', 'inputs': num['inputs'], 'taylor_branch_value': num['taylor'], 'generic_formula_value_60digits': num['generic'], 'tolerance': num['tol'], 'replay': rep}, open(rfn, 'w'), indent=1)
                    res.violations.append((key, rfn))
    res.extra.setdefault('trunc', {})
    for k, v in stats.items(): res.extra['trunc'][k] = res.extra['trunc'].get(k, 0) + v
    res.axioms.add('alternating-series enclosures of sin/cos (4 terms) and atan (2 terms) on |arg|<=1')
    return stats

def replay_trunc(res, ename, nm, num, dbin):
    if not dbin: return None
    rundir = os.path.join(build.WORK, 'run', res.pid)
    inp = os.path.join(rundir, 'replay_input_tr.txt')
    with open(inp, 'w') as f:
        for k, v in num['inputs_hex'].items(): f.write('%s:%s %s\n' % (ename, k, v))
    out = os.path.join(rundir, 'replay_out_tr.txt')
    rc, txt = build.run_harness(dbin, out, [re_escape(ename), '--input', inp])
    if rc != 0: return {'reproduced': False, 'error': txt[-300:]}
    for ce in dagm.load(out):
        if ce.name != ename or not ce.paths: continue
        cv = ce.paths[0].cvals.get(nm)
        if cv is None: return {'reproduced': False}
        lv = cv[0]
        return {'reproduced': bool(abs(lv - num['generic']) > num['tol']), 'double_taylor_value': lv, 'reference': num['generic'], 'binary': dbin}
    return None

# ---------------------------------------------------------------------------
# COND-lite pipeline
def _cond_job(args):
    fn, ename, pidx, opts = args
    from . import cond
    try:
        if fn not in _DAGCACHE:
            _DAGCACHE.clear(); _DAGCACHE[fn] = {e.name: e for e in dagm.load(fn)}
        e = _DAGCACHE[fn][ename]; p = e.paths[pidx]
        keep = opts.get('out_prefixes')
        if keep is not None: p.outs = {k: v for k, v in p.outs.items() if k.startswith(tuple(keep))}
        q0 = smt.STATS.queries; t0 = smt.STATS.time; p0 = smt.STATS.procs
        r = cond.cond_path(e, p, opts)
        st = {'queries': smt.STATS.queries - q0, 'time': smt.STATS.time - t0, 'procs': smt.STATS.procs - p0}
        return (fn, ename, pidx, r, st, None)
    except Exception:
        return (fn, ename, pidx, None, {'queries': 0, 'time': 0, 'procs': 0}, traceback.format_exc())

def run_cond(res, specs, opts):
    from . import cond
    import mpmath as mp
    mp.mp.dps = 60
    rundir = os.path.join(build.WORK, 'run', res.pid); os.makedirs(rundir, exist_ok=True)
    targets = [(s['src'], s['defs'], 'sym') for s in specs] + [(s['src'], s['defs'], 'double') for s in specs]
    built = build.build_all(targets)
    known = load_known(res.pid)
    jobs = []; meta = {}
    for k, s in enumerate(specs):
        b, err, secs = built[k]
        if b is None:
            res.errors.append({'what': 'harness does not compile', 'spec': s['src'] + ':' + ','.join(s['defs']), 'diag': err[-3000:]}); continue
        fn = os.path.join(rundir, os.path.basename(b) + '.cond%d.dag' % k)
        rc, out = build.run_harness(b, fn, [s.get('filter', '.*')])
        if rc != 0:
            res.errors.append({'what': 'harness run failed', 'spec': s['src'], 'diag': out[-2000:]}); continue
        meta[fn] = (s, built[len(specs) + k][0])
        o2 = dict(opts, out_prefixes=s.get('out_prefixes'))
        for e in dagm.load(fn):
            for p in e.paths: jobs.append((fn, e.name, p.idx, o2))
    stats = {'paths': 0, 'bound_queries': 0, 'bounded': 0, 'refuted_in_model': 0, 'reproduced': 0, 'model_only': 0, 'undecided': 0}
    ents = {}
    for fn, ename, pidx, r, st, err in pool_map(_cond_job, jobs, opts, res):
        res.solver['queries'] += st['queries']; res.solver['time'] += st['time']; res.solver['procs'] += st['procs']
        if err:
            res.errors.append({'what': 'cond exception', 'entry': ename, 'path': pidx, 'diag': err[-3000:]}); continue
        if r.get('skip') or r.get('cf_error'):
            if r.get('cf_error'): res.undecided.append('cond %s path %d: %s' % (ename, pidx, r['cf_error']))
            continue
        stats['paths'] += 1; res.paths += 1; res.functions.add(ename)
        stats['bound_queries'] += r['queries']
        s, dbin = meta[fn]
        if fn not in ents: ents[fn] = {e.name: e for e in dagm.load(fn)}
        e = ents[fn][ename]; p = e.paths[pidx]
        for key, stt in sorted(r['claims'].items()):
            res.obligations += 1; res.claims += 1
            full = 'cond:%s:%s' % (ename, key)
            if stt == 'bounded':
                res.discharged += 1; stats['bounded'] += 1
                if len(res.samples) < 10: res.samples.append({'entry': ename, 'claim': key, 'status': 'amplification bounded by solver'})
                continue
            if stt == 'undecided':
                stats['undecided'] += 1; res.undecided.append('%s: amplification bound undecided within the cap' % full); continue
            stats['refuted_in_model'] += 1
            nm = key.split('@')[0]; di = [k for k, (lo, hi) in enumerate(cond.DECADES) if '@sigma(%g,%g]' % (float(lo), float(hi)) in key][0]
            worst = None
            for asg in cond.concretise(e, p, nm, di, n=opts.get('cond_points', 16), seed=12345):   # fixed placement seed: the reproduced set must not depend on VERIF_SEED
                val = dagm.numeval(e.nodes, [p.outs[nm]], asg, mp)
                ref = val[p.outs[nm]]
                inp = os.path.join(rundir, 'cond_in.txt')
                with open(inp, 'w') as f:
                    for k2, v in asg.items(): f.write('%s:%s %s\n' % (ename, e.nodes[k2].name, float(v).hex()))
                outf = os.path.join(rundir, 'cond_out.txt')
                rc, txt = build.run_harness(dbin, outf, [re_escape(ename), '--input', inp])
                got = None
                for ce in dagm.load(outf):
                    if ce.name == ename and ce.paths: got = ce.paths[0].outs.get(nm)
                if got is None or isinstance(got, int): continue
                scale = max([1.0] + [abs(float(v)) for v in asg.values()] + [abs(float(ref))])
                errv = abs(got - float(ref)) / scale
                if worst is None or errv > worst[0]: worst = (errv, {e.nodes[k2].name: float(v) for k2, v in asg.items()}, got, float(ref))
            from fractions import Fraction as _F
            ctol = float(_F(opts.get('cond_tol', cond.TOL)))
            if worst is None or worst[0] <= ctol:
                stats['model_only'] += 1
                res.undecided.append('%s: amplification bound refuted in the rounding model, not reproduced on the double build (worst relative error %.2g)' % (full, worst[0] if worst else -1)); continue
            stats['reproduced'] += 1
            kf = match_known(known, full)
            if kf: res.known.append((full, kf.get('what', ''))); continue
            d = os.path.join(VERIF, 'replay', res.pid); os.makedirs(d, exist_ok=True)
            rfn = os.path.join(d, full.replace(':', '__').replace('(', '_').replace(')', '').replace(',', '_').replace('@', '_at_').replace(']', '') + '.json')
            json.dump({'property': res.pid, 'key': full, 'entry': ename, 'claim': key, 'mode': 'COND', 'inputs': worst[1], 'double_build_value': worst[2], 'reference_60_digits': worst[3], 'relative_error': worst[0], 'tolerance': ctol,
                       'replay': {'binary': dbin, 'reproduced': True}}, open(rfn, 'w'), indent=1)
            res.violations.append((full, rfn))
    res.extra.setdefault('cond', {})
    for k, v in stats.items(): res.extra['cond'][k] = res.extra['cond'].get(k, 0) + v
    res.axioms.add('rounding model (COND-lite): relative error <= 2u on every libm result (sin, cos, sqrt), first order, arithmetic roundings not modelled')
    return stats
