"""Canonical-form engine (untrusted proposer of SCSN, DESIGN 3.4).

For every DAG node computes a reduced rational form N/D over the atoms
(input variables, sqrt / trig / atan2 atoms), reduced modulo the defining
relations G.  Nothing here is trusted: every arithmetic step is re-checked by
the SMT solver through the step lemmas emitted by `steps()`; the rewrite rules
used for transcendental nodes are the axioms listed in DESIGN section 7 and are
reported as `axioms`.
"""
import time
from fractions import Fraction
from sympy.polys.rings import ring
from sympy import QQ
from . import dag as dagm

TR_OPS = ('sqrt', 'sin', 'cos', 'atan2', 'tan', 'asin', 'acos', 'atan', 'exp', 'log', 'cbrt', 'round', 'abs')

class CFError(Exception):
    pass

class Canon:
    def __init__(self, nodes, roots, hyps, extra_rules=None, sign_override=None, atom_order=None, inverse_polar=True):
        self.inverse_polar = inverse_polar
        self.nodes = nodes
        self.cone = sorted(dagm.cone(nodes, roots))
        self.hyps = hyps
        tr = [i for i in self.cone if nodes[i].op in TR_OPS]
        vs = [i for i in self.cone if nodes[i].op == 'var']
        leads = []
        for kind, ids in hyps:
            if kind == 'unitq' and all(nodes[j].op == 'var' for j in ids): leads.append(ids[3])
            elif kind == 'unitc' and all(nodes[j].op == 'var' for j in ids): leads.append(ids[0])
        leads = [l for l in leads if l in vs]
        rank = {'sqrt': 0, 'abs': 0, 'cbrt': 0, 'sin': 1, 'cos': 1, 'tan': 1}
        tr.sort(key=lambda i: (rank.get(nodes[i].op, 2), -i))
        self.atoms = tr + leads + [v for v in vs if v not in leads]
        if not self.atoms:
            self.atoms = [-1]
        res = ring(['n%d' % i if i >= 0 else 'dummy' for i in self.atoms], QQ)
        self.R = res[0]; self.g = dict(zip(self.atoms, res[1:]))
        R = self.R
        self.G = []; self.Gsrc = []
        for kind, ids in hyps:
            if not all(j in self.g for j in ids): continue
            if kind == 'unitq' and ids[3] in leads:
                self.G.append(sum((self.g[j] ** 2 for j in ids), R(0)) - 1); self.Gsrc.append(('hyp', kind, ids))
            elif kind == 'unitc' and ids[0] in leads:
                self.G.append(self.g[ids[0]] ** 2 + self.g[ids[1]] ** 2 - 1); self.Gsrc.append(('hyp', kind, ids))
        self.val = {}
        self.sqrtatoms = {}     # key(rest) -> value
        self.sqrt_defs = []     # (atom id, N, D)  : atom >= 0, atom^2 * D = N
        self.trigbase = {}      # key(arg) -> (s, c)
        self.trigargs = {}
        self.trig_defs = []     # (sin atom id or None, cos atom id or None)
        self.atan = {}          # atom id -> (y, x, r)
        self.opaque = {}        # (op, key(arg)) -> atom value
        self.signs = []         # sign obligations: (poly N, poly D, '>=' or '<=')  meaning N/D >= 0
        self.polar_inv = []     # (k, A): obligations k > 0 and -pi < A <= pi
        self.nonneg = []        # sqrt arguments: (N, D) must be >= 0
        self.axioms = set()
        self.sign_override = sign_override or {}
        self.nsign = 0
        self.maxsize = 0
        self.time = 0.0

    # ---- helpers
    def red(self, p):
        return p.rem(self.G) if self.G else p

    def norm(self, n, d):
        R = self.R
        n = self.red(n); d = self.red(d)
        if d == 0:
            raise CFError('denominator reduces to zero')
        if n == 0:
            return (R(0), R(1))
        if d != 1:
            if d.is_ground:
                n = n.quo_ground(d.LC); d = R(1)
            else:
                gg = n.gcd(d)
                if gg != 1:
                    n = n.quo(gg); d = d.quo(gg)
                lc = d.LC
                if lc != 1:
                    n = n.quo_ground(lc); d = d.quo_ground(lc)
        return (n, d)

    @staticmethod
    def key(v):
        return (str(v[0]), str(v[1]))

    def witness(self, p):
        tot = 0.0
        for mon, coef in p.terms():
            t = float(coef.numerator) / float(coef.denominator)
            for gi, e in zip(self.atoms, mon):
                if e: t *= self.nodes[gi].w ** e
            tot += t
        return tot

    def mulv(self, u, v): return self.norm(u[0] * v[0], u[1] * v[1])
    def divv(self, u, v): return self.norm(u[0] * v[1], u[1] * v[0])
    def addv(self, u, v): return self.norm(u[0] * v[1] + v[0] * u[1], u[1] * v[1])
    def subv(self, u, v): return self.norm(u[0] * v[1] - v[0] * u[1], u[1] * v[1])
    def scal(self, k, u): return self.norm(k * u[0], u[1])
    def negv(self, u): return (-u[0], u[1])
    def iszero(self, u): return self.red(u[0]) == 0
    def eqv(self, u, v): return self.red(u[0] * v[1] - v[0] * u[1]) == 0
    def const(self, fr):
        return (self.R(QQ(fr.numerator, fr.denominator)), self.R(1))

    # ---- sqrt
    def _split_square(self, p):
        """p = c * prod f^m  ->  (outside, inside) with p = outside^2 * inside, inside square-free-ish; None if p has negative constant."""
        R = self.R
        if p == 1: return (R(1), R(1))
        c, fs = p.factor_list()
        c = Fraction(int(c.numerator), int(c.denominator))
        if c < 0: return None
        import math
        def sqpart(n):
            out = 1; rest = n; f = 2
            while f * f <= rest and f < 100000:
                while rest % (f * f) == 0:
                    out *= f; rest //= f * f
                f += 1
            r = math.isqrt(rest)
            if r * r == rest: return out * r, 1
            return out, rest
        on, rn = sqpart(c.numerator); od, rd = sqpart(c.denominator)
        outside = R(QQ(on, od)); inside = R(QQ(rn, rd))
        for f, m in fs:
            m = int(m)
            if m // 2: outside = outside * f ** (m // 2)
            if m % 2: inside = inside * f
        return (outside, inside)

    def do_sqrt(self, i, a, value=None):
        R = self.R
        n_, d_ = self.val[a] if value is None else value
        if value is None: self.nonneg.append((n_, d_))
        # sqrt(n/d) = sqrt(n*d)/d   (d != 0 is a separate obligation; sign of d handled through |d|)
        if d_ != 1:
            sp = self._split_square(self.red(n_ * d_))
            den = d_
        else:
            sp = self._split_square(n_)
            den = R(1)
        if sp is None:
            outside, inside = R(1), (n_ * d_ if d_ != 1 else n_)
        else:
            outside, inside = sp
        # value = |outside| * sqrt(inside) / |den|
        ov = (outside, den)
        ov = self.norm(*ov)
        if ov[0].is_ground and ov[1].is_ground:
            if ov[0].LC < 0: ov = self.negv(ov)
        else:
            kk = self.key(ov)
            sgn = self.sign_override.get(kk)
            if sgn is None:
                w = self.witness(ov[0]) / self.witness(ov[1])
                sgn = -1 if w < 0 else 1
            if sgn == 0:
                # sign not determined on this path: keep |e| as the atom sqrt(e^2)
                inside = self.red(inside * ov[0] ** 2); den2 = ov[1]
                ik = 'abs:' + str(inside)
                if ik not in self.sqrtatoms:
                    self.sqrtatoms[ik] = (self.g[i], R(1))
                    self.G.append(self.g[i] ** 2 - inside); self.Gsrc.append(('sqrt', i))
                    self.sqrt_defs.append((i, inside)); self.axioms.add('sqrt: s>=0, s^2=a')
                if den2 == 1: return self.sqrtatoms[ik]
                # |den| : denominators are proved non-zero; sign by witness with obligation
                dv = (den2, R(1))
                if self.witness(den2) < 0: dv = self.negv(dv)
                self.signs.append((dv[0], dv[1], self.key(dv), 1))
                return self.divv(self.sqrtatoms[ik], dv)
            if sgn < 0: ov = self.negv(ov)
            self.signs.append((ov[0], ov[1], kk, sgn))
        if inside == 1:
            self.axioms.add('sqrt(e^2)=|e|')
            return ov
        ik = str(inside)
        if ik not in self.sqrtatoms:
            if inside.is_ground:
                # irrational constant: keep atom
                pass
            self.sqrtatoms[ik] = (self.g[i], R(1))
            self.G.append(self.g[i] ** 2 - inside); self.Gsrc.append(('sqrt', i))
            self.sqrt_defs.append((i, inside))
            self.axioms.add('sqrt: s>=0, s^2=a')
        return self.mulv(ov, self.sqrtatoms[ik])

    # ---- trig
    def do_trig(self, i, op, a):
        R = self.R; nodes = self.nodes
        A = self.val[a]
        # argument is k * atan2 atom ?
        for at, (y, x, r) in self.atan.items():
            for k in (1, -1, 2, -2):
                if self.red(A[0] - k * self.g[at] * A[1]) == 0:
                    sy, cx = self.divv(y, r), self.divv(x, r)
                    if abs(k) == 1: sv, cv = sy, cx
                    else: sv, cv = self.scal(2, self.mulv(sy, cx)), self.subv(self.mulv(cx, cx), self.mulv(sy, sy))
                    if k < 0: sv = self.negv(sv)
                    self.axioms.add('atan2 polar: r sin(a)=y, r cos(a)=x')
                    return sv if op == 'sin' else cv
        kk = self.key(A)
        if kk in self.trigbase:
            s, c = self.trigbase[kk]; return s if op == 'sin' else c
        if self.iszero(A):
            return self.const(Fraction(0)) if op == 'sin' else self.const(Fraction(1))
        for kb, (sb, cb) in list(self.trigbase.items()):
            B = self.trigargs[kb]
            for k in (-1, 2, -2, 3, -3, 4, -4):
                if self.red(A[0] * B[1] - k * B[0] * A[1]) == 0:   # A = k B
                    s, c = sb, cb
                    kk_ = abs(k)
                    if kk_ >= 2:
                        s2 = self.scal(2, self.mulv(sb, cb)); c2 = self.subv(self.const(Fraction(1)), self.scal(2, self.mulv(sb, sb)))
                        s, c = s2, c2
                        self.axioms.add('double angle')
                    if kk_ == 3:
                        s, c = self.addv(self.mulv(s2, cb), self.mulv(c2, sb)), self.subv(self.mulv(c2, cb), self.mulv(s2, sb))
                    if kk_ == 4:
                        s, c = self.scal(2, self.mulv(s2, c2)), self.subv(self.const(Fraction(1)), self.scal(2, self.mulv(s2, s2)))
                    if k < 0:
                        s = self.negv(s); self.axioms.add('sin odd, cos even')
                    self.trigbase[kk] = (s, c); self.trigargs[kk] = A
                    return s if op == 'sin' else c
        sn = [j for j in self.cone if nodes[j].op == 'sin' and nodes[j].a == a]
        cn = [j for j in self.cone if nodes[j].op == 'cos' and nodes[j].a == a]
        if not sn or not cn:
            # only one of sin/cos of this argument occurs: single opaque atom with |.|<=1
            j = (sn or cn)[0]
            self.trig_defs.append((sn[0] if sn else None, cn[0] if cn else None))
            self.trigbase[kk] = ((self.g[j], R(1)) if sn else None, (self.g[j], R(1)) if cn else None)
            self.trigargs[kk] = A
            return (self.g[j], R(1))
        s = (self.g[sn[0]], R(1)); c = (self.g[cn[0]], R(1))
        self.G.append(self.g[sn[0]] ** 2 + self.g[cn[0]] ** 2 - 1); self.Gsrc.append(('trig', sn[0], cn[0]))
        self.trig_defs.append((sn[0], cn[0]))
        self.axioms.add('sin^2+cos^2=1')
        self.trigbase[kk] = (s, c); self.trigargs[kk] = A
        return s if op == 'sin' else c

    def compute(self, i):
        if i in self.val: return
        nodes = self.nodes; R = self.R
        # iterative post-order to avoid deep recursion
        stack = [i]
        while stack:
            j = stack[-1]
            if j in self.val: stack.pop(); continue
            n = nodes[j]
            ch = [c for c in (n.a, n.b if n.op != 'round' else -1) if c is not None and c >= 0 and c not in self.val]
            if ch:
                stack.extend(ch); continue
            stack.pop()
            self.val[j] = self._compute1(j)
            sz = len(self.val[j][0]) + len(self.val[j][1])
            if sz > self.maxsize: self.maxsize = sz

    def _compute1(self, i):
        n = self.nodes[i]; op, a, b = n.op, n.a, n.b; R = self.R; val = self.val
        if op == 'var': return (self.g[i], R(1))
        if op == 'const': return self.const(Fraction(n.c))
        if op in ('add', 'sub'):
            (n1, d1), (n2, d2) = val[a], val[b]
            if d1 == d2: return self.norm(n1 + n2 if op == 'add' else n1 - n2, d1)
            gg = d1.gcd(d2); e1 = d1.quo(gg); e2 = d2.quo(gg)
            return self.norm(n1 * e2 + n2 * e1 if op == 'add' else n1 * e2 - n2 * e1, e1 * d2)
        if op == 'mul': return self.mulv(val[a], val[b])
        if op == 'div':
            if self.red(val[b][0]) == 0: raise CFError('division by an expression that reduces to zero (node %d)' % i)
            return self.divv(val[a], val[b])
        if op == 'neg': return self.negv(val[a])
        if op == 'sqrt': return self.do_sqrt(i, a)
        if op == 'abs':
            self.axioms.add('|x| = sqrt(x^2)')
            return self.do_sqrt(i, a, value=self.mulv(val[a], val[a]))
        if op == 'atan2':
            y, x = val[a], val[b]
            if self.iszero(y) and x[0].is_ground and x[1].is_ground and x[0].LC > 0:
                return self.const(Fraction(0))
            # inverse polar rule: atan2(k sin A, k cos A) = A  for k > 0 and -pi < A <= pi (obligations recorded)
            for kb, sc in (self.trigbase.items() if self.inverse_polar else ()):
                if not sc or sc[0] is None or sc[1] is None: continue
                sb, cb = sc
                if self.iszero(sb) or self.iszero(cb): continue
                ky = self.divv(y, sb); kx = self.divv(x, cb)
                if self.eqv(ky, kx):
                    A = self.trigargs[kb]
                    self.polar_inv.append((ky, A))
                    self.axioms.add('inverse polar: atan2(k sin A, k cos A) = A for k>0, -pi<A<=pi')
                    return A
            rr = self.norm(y[0] ** 2 * x[1] ** 2 + x[0] ** 2 * y[1] ** 2, (y[1] * x[1]) ** 2)
            sp_n = self._split_square(rr[0]); sp_d = self._split_square(rr[1])
            kk = (self.key(y), self.key(x))
            if kk in self.opaque: return self.opaque[kk]
            if sp_n is not None and sp_d is not None and sp_n[1] == 1 and sp_d[1] == 1:
                r = self.norm(sp_n[0], sp_d[0])
                if r[0].is_ground and r[1].is_ground:
                    if r[0].LC < 0: r = self.negv(r)
                else:
                    if self.witness(r[0]) / self.witness(r[1]) < 0: r = self.negv(r)
                    self.signs.append((r[0], r[1], self.key(r), 1))
                self.atan[i] = (y, x, r)
            else:
                self.atan[i] = None
            self.opaque[kk] = (self.g[i], R(1))
            if self.atan[i] is None: del self.atan[i]
            return self.opaque[kk]
        if op in ('sin', 'cos'): return self.do_trig(i, op, a)
        if op in TR_OPS:
            kk = (op, self.key(val[a]), b if op == 'round' else 0)
            if kk not in self.opaque: self.opaque[kk] = (self.g[i], R(1))
            return self.opaque[kk]
        raise CFError('unsupported op ' + op)

    def run(self, roots=None):
        t0 = time.time()
        nodes = self.nodes
        trig = [j for j in self.cone if nodes[j].op in ('sin', 'cos')]
        for j in sorted(trig, key=lambda j: abs(nodes[nodes[j].a].w)):
            self.compute(nodes[j].a); self.compute(j)
        for i in (roots if roots is not None else self.cone):
            self.compute(i)
        self.time = time.time() - t0
        return self

    # ---- SMT rendering
    def poly_smt(self, p):
        terms = []
        for mon, coef in p.terms():
            fs = []
            c = Fraction(int(coef.numerator), int(coef.denominator))
            for gi, e in zip(self.atoms, mon):
                fs += ['n%d' % gi] * e
            cs = str(abs(c.numerator)) if c.denominator == 1 else "(/ %d %d)" % (abs(c.numerator), c.denominator)
            if fs:
                t = ("(* %s %s)" % (cs, ' '.join(fs))) if (cs != '1' or len(fs) > 1) else fs[0]
                if cs == '1' and len(fs) > 1: t = "(* %s)" % ' '.join(fs)
            else:
                t = cs
            if c < 0: t = "(- %s)" % t
            terms.append(t)
        return "(+ %s)" % ' '.join(terms) if len(terms) > 1 else (terms[0] if terms else "0")

    def rat_smt(self, v):
        if v[1] == 1: return self.poly_smt(v[0])
        return "(/ %s %s)" % (self.poly_smt(v[0]), self.poly_smt(v[1]))

    def used_atoms(self):
        return [a for a in self.atoms if a >= 0]

    def preamble(self):
        """Declarations and the defining relations (axiom instances) of the atoms."""
        lines = ["(declare-fun n%d () Real)" % i for i in self.used_atoms()]
        for gi in self.G:
            lines.append("(assert (= %s 0))" % self.poly_smt(gi))
        for (i, inside) in self.sqrt_defs:
            lines.append("(assert (>= n%d 0))" % i)
        for (s, c) in self.trig_defs:
            for j in (s, c):
                if j is not None: lines.append("(assert (and (<= (- 1) n%d) (<= n%d 1)))" % (j, j))
        # sign / zero facts of sin and cos on stated intervals (sound for the real functions; PI_LO < pi)
        PI = "(/ 31415926535 10000000000)"; HPI = "(/ 31415926535 20000000000)"; TPI = "(/ 31415926535 5000000000)"
        for kk, A in self.trigargs.items():
            sc = self.trigbase.get(kk)
            if not sc or sc[0] is None or sc[1] is None: continue
            sv, cv = sc
            if not (len(sv[0]) == 1 and sv[1] == 1 and len(cv[0]) == 1 and cv[1] == 1 and sv[0].LC == 1 and cv[0].LC == 1): continue   # only base atoms
            a = self.rat_smt(A); s_ = self.poly_smt(sv[0]); c_ = self.poly_smt(cv[0])
            lines.append("(assert (=> (and (< 0 %s) (< %s %s)) (> %s 0)))" % (a, a, PI, s_))
            lines.append("(assert (=> (and (< (- %s) %s) (< %s 0)) (< %s 0)))" % (PI, a, a, s_))
            lines.append("(assert (=> (and (< (- %s) %s) (< %s %s)) (> %s 0)))" % (HPI, a, a, HPI, c_))
            lines.append("(assert (=> (and (not (= %s 0)) (< (- %s) %s) (< %s %s)) (< %s 1)))" % (a, TPI, a, a, TPI, c_))
            lines.append("(assert (=> (= %s 0) (and (= %s 0) (= %s 1))))" % (a, s_, c_))
            self.axioms.add('sign of sin on (0,pi)/(-pi,0), cos>0 on (-pi/2,pi/2), cos<1 on 0<|a|<2pi, with rational lower bound 3.1415926535 < pi')
        PIH = "(/ 31415926536 10000000000)"; HPIH = "(/ 31415926536 20000000000)"
        for at, v in self.atan.items():
            al = 'n%d' % at
            lines.append("(assert (and (<= (- %s) %s) (<= %s %s)))" % (PIH, al, al, PIH))
            if v is None: continue
            y, x, r = v
            ys, xs = self.rat_smt(y), self.rat_smt(x)
            lines.append("(assert (=> (>= %s 0) (>= %s 0)))" % (ys, al))
            lines.append("(assert (=> (< %s 0) (< %s 0)))" % (ys, al))
            lines.append("(assert (=> (and (= %s 0) (< %s 0)) (or (and (<= %s %s) (<= %s %s)) (and (<= (- %s) %s) (<= %s (- %s))))))" % (ys, xs, PI, al, al, PIH, PIH, al, al, PI))   # atan2(+-0, x<0) = +-pi
            lines.append("(assert (=> (>= %s 0) (and (<= (- %s) %s) (<= %s %s))))" % (xs, HPIH, al, al, HPIH))
            lines.append("(assert (=> (and (= %s 0) (> %s 0)) (= %s 0)))" % (ys, xs, al))
            lines.append("(assert (=> (not (= %s 0)) (not (= %s 0))))" % (ys, al))
            # sin a <= a <= tan a on [0, pi/2) (and mirrored): with r sin a = y, r cos a = x
            rs = self.rat_smt(r)
            lines.append("(assert (=> (and (>= %s 0) (>= %s 0)) (>= (* %s %s) %s)))" % (ys, xs, al, rs, ys))
            lines.append("(assert (=> (and (>= %s 0) (> %s 0)) (<= (* %s %s) %s)))" % (ys, xs, al, xs, ys))
            lines.append("(assert (=> (and (<= %s 0) (>= %s 0)) (<= (* %s %s) %s)))" % (ys, xs, al, rs, ys))
            lines.append("(assert (=> (and (<= %s 0) (> %s 0)) (>= (* %s %s) %s)))" % (ys, xs, al, xs, ys))
            self.axioms.add('atan2 range: |a|<=pi, sign(a)=sign(y) for y!=0, |a|=pi for y=0 and x<0, |a|<=pi/2 when x>=0 (rational upper bound 3.1415926536 > pi); sin a <= a <= tan a on [0,pi/2) and mirrored')
        return lines

    def steps(self, ids=None):
        """Step lemmas: for every arithmetic node, node-CF is consistent with children CFs.
        Returns list of (node id, smt assertion string to be refuted i.e. the NEGATED lemma)."""
        out = []
        nodes = self.nodes
        for i in (ids if ids is not None else self.cone):
            n = nodes[i]; op, a, b = n.op, n.a, n.b
            if op not in ('add', 'sub', 'mul', 'div'): continue
            if i not in self.val: continue
            vi, va, vb = self.val[i], self.val[a], self.val[b]
            Ni, Di = map(self.poly_smt, vi); Na, Da = map(self.poly_smt, va); Nb, Db = map(self.poly_smt, vb)
            if op == 'add': lhs = "(* %s %s %s)" % (Ni, Da, Db); rhs = "(* %s (+ (* %s %s) (* %s %s)))" % (Di, Na, Db, Nb, Da)
            elif op == 'sub': lhs = "(* %s %s %s)" % (Ni, Da, Db); rhs = "(* %s (- (* %s %s) (* %s %s)))" % (Di, Na, Db, Nb, Da)
            elif op == 'mul': lhs = "(* %s %s %s)" % (Ni, Da, Db); rhs = "(* %s %s %s)" % (Di, Na, Nb)
            else: lhs = "(* %s %s %s)" % (Ni, Da, Nb); rhs = "(* %s %s %s)" % (Di, Na, Db)
            out.append((i, "(not (= %s %s))" % (lhs, rhs)))
        return out

    def denominators(self, ids=None):
        """Distinct polynomials that must be non-zero: all CF denominators and all divisors' numerators."""
        seen = {}
        nodes = self.nodes
        for i in (ids if ids is not None else self.cone):
            if i not in self.val: continue
            d = self.val[i][1]
            if not d.is_ground: seen.setdefault(str(d), d)
            if nodes[i].op == 'div':
                nb = self.val[nodes[i].b][0]
                if not nb.is_ground: seen.setdefault(str(nb), nb)
        for at, v in self.atan.items():
            if v is not None and not v[2][0].is_ground: seen.setdefault(str(v[2][0]), v[2][0])
        return list(seen.values())
