"""EXACT-mode prover: per (entry, path) canonical forms + solver-checked step lemmas (SCSN),
side obligations, claims, path feasibility; numeric search for counterexample candidates."""
import time, random, json, os
from fractions import Fraction
from . import dag as dagm, cf as cfm, smt

CMP = {0: '<', 1: '<=', 2: '=', 3: 'distinct'}

def eps_const_ids(nodes):
    out = set()
    for i, n in nodes.items():
        if n.op == 'const' and (n.c == 2.220446049250313e-14 or abs(n.c - 1.1920928955078125e-05) < 1e-20 or n.c == 1.4901161193847656e-07):
            out.add(i)
    return out

def cmp_smt(C, a, cmpop, b, taken=True):
    s = "(%s %s %s)" % (CMP[cmpop], C.rat_smt(C.val[a]), C.rat_smt(C.val[b]))
    return s if taken else "(not %s)" % s

def const_truth(C, a, cmpop, b):
    """If CF(a)-CF(b) is a rational constant, return truth value of a cmp b, else None."""
    d = C.subv(C.val[a], C.val[b])
    if d[0] == 0: v = Fraction(0)
    elif d[0].is_ground and d[1].is_ground:
        v = Fraction(int(d[0].LC.numerator), int(d[0].LC.denominator)) / Fraction(int(d[1].LC.numerator), int(d[1].LC.denominator))
    else: return None
    return {0: v < 0, 1: v <= 0, 2: v == 0, 3: v != 0}[cmpop]

def _truncate_path(path, ndec):
    class P: pass
    p = P(); p.__dict__.update(path.__dict__); p.decisions = list(path.decisions)[:ndec]
    return p

def prove_path(entry, path, opts):
    """Returns dict with statuses. opts: per_check_ms, jobs, skip_claims(set of name prefixes)"""
    t0 = time.time()
    nodes = entry.nodes
    res = {'path': path.idx, 'outcome': path.outcome, 'msg': path.msg, 'ndec': len(path.decisions),
           'claims': {}, 'lemmas': 0, 'lemmas_ok': 0, 'side': 0, 'side_ok': 0, 'feasible': None,
           'undecided': [], 'candidates': [], 'notes': dict(path.notes), 'axioms': [], 'cf_time': 0, 'maxsize': 0}
    roots = []
    for (a, c, b, t) in path.decisions: roots += [a, b]
    for (a, c, b) in path.assumes: roots += [a, b]
    # claims whose two sides are the very same DAG node need no canonical forms (the recorded computations are identical)
    same_node = [(k, name, l, r) for (k, name, l, r) in path.claims if l == r and l is not None and k == 'EQ']
    res['same_node'] = len(same_node)
    path_claims = [c for c in path.claims if not (c[2] == c[3] and c[2] is not None and c[0] == 'EQ')]
    for (k, name, l, r) in same_node: res['claims'][name] = 'proved'
    for (k, name, l, r) in path_claims: roots += [l, r]
    if same_node and not path_claims and opts.get('structural'):
        # structural check: every claim compares a node with itself; one batched trivial query keeps the verdict with the solver
        ids = sorted({l for (_, _, l, _) in same_node})
        pre0 = ["(declare-fun n%d () Real)" % i for i in ids]
        rr = smt.run_checks(pre0, [('same', ["(not (and %s))" % ' '.join("(= n%d n%d)" % (i, i) for i in ids)])], per_check_ms=5000, jobs=1)
        ok = rr['same'][0] == 'unsat'
        res['side'] = 1; res['side_ok'] = 1 if ok else 0; res['feasible'] = None; res['structural'] = True
        res['time'] = time.time() - t0
        return res
    for kind, ids in path.hyps: roots += ids
    roots = [r for r in roots if r is not None]
    sign_override = {}
    droots = []
    for (a, c, b, t) in path.decisions: droots += [a, b]
    for (a, c, b) in path.assumes: droots += [a, b]
    import signal
    def _alarm(*a): raise cfm.CFError('canonical-form time cap (%ds) exceeded' % opts.get('cf_cap', 120))
    for attempt in range(4):
        try:
            signal.signal(signal.SIGALRM, _alarm); signal.alarm(opts.get('cf_cap', 120))
            try:
                C = cfm.Canon(nodes, roots, path.hyps, sign_override=sign_override, inverse_polar=('no_inverse_polar' not in path.notes))
                # stage 1: decisions only -- a path refuted by constant decisions needs no claim forms
                # decisions in execution order: stop at the first one that is refuted by a constant (later nodes of such a
                # path may divide by an expression that is identically zero there)
                early = False; done_roots = []
                for (a, c, b) in path.assumes:
                    C.run([a, b]); done_roots += [a, b]
                for (a, c, b, t) in path.decisions:
                    C.run([a, b]); done_roots += [a, b]
                    ct = const_truth(C, a, c, b)
                    if ct is not None and ct != t:
                        early = True; break
                if early:
                    droots = done_roots
                    path = _truncate_path(path, len([1 for x in done_roots]) // 2 - len(path.assumes))
                    C.cone = sorted(dagm.cone(nodes, droots))
                else:
                    C.run(roots)
            finally:
                signal.alarm(0)
        except cfm.CFError as e:
            res['cf_error'] = str(e); res['feasible'] = None
            # A path on which the canonical engine meets a vanishing denominator: decide feasibility is left to caller
            res['time'] = time.time() - t0
            return res
        pre = C.preamble()
        pc = []
        infeasible_const = False
        for (a, c, b, t) in path.decisions:
            ct = const_truth(C, a, c, b)
            if ct is not None and ct != t: infeasible_const = True
            pc.append(cmp_smt(C, a, c, b, t))
        for (a, c, b) in path.assumes:
            pc.append(cmp_smt(C, a, c, b, True))
        checks = []
        # sign obligations first (they may force a retry)
        signchecks = []
        for k, (N, D, kk, sg) in enumerate(C.signs):
            signchecks.append(('sign:%d' % k, pc + ["(< %s 0)" % C.rat_smt((N, D))]))
        feas = [('feasible', pc)]
        want_model = ('noraise' in path.notes and path.outcome.startswith('raise')) or ('mustraise' in path.notes and path.outcome == 'ret')
        r0 = smt.run_checks(pre, feas + signchecks, per_check_ms=opts.get('per_check_ms', 20000), jobs=2, models=want_model)
        fz = r0['feasible'][0]
        if want_model and fz == 'sat':
            m = smt.parse_model(r0['feasible'][1])
            res['feas_model'] = {int(k[1:]): v for k, v in m.items() if k[1:].isdigit() and int(k[1:]) in nodes and nodes[int(k[1:])].op == 'var'}
        if fz == 'unsat' or infeasible_const:
            res['feasible'] = False
            break
        bad = [k for k, (N, D, kk, sg) in enumerate(C.signs) if r0['sign:%d' % k][0] != 'unsat']
        if not bad: break
        # flip signs that the solver refuted (sat) and retry; unknown stays as undecided
        flipped = False
        for k in bad:
            N, D, kk, sg = C.signs[k]
            if r0['sign:%d' % k][0] != 'sat':
                if sign_override.get(kk) != 0:
                    sign_override[kk] = 0; flipped = True        # sign not decided within the cap: keep |e| as an atom (always sound)
            else:
                if kk not in sign_override:
                    sign_override[kk] = -sg; flipped = True      # try the opposite sign of the witness choice
                elif sign_override[kk] != 0:
                    sign_override[kk] = 0; flipped = True        # neither sign holds on the whole path: keep |e| as an atom
        if not flipped: break
    res['cf_time'] = round(C.time, 3); res['maxsize'] = C.maxsize; res['axioms'] = sorted(C.axioms)
    res['atoms'] = len(C.used_atoms()); res['nodes'] = len(C.cone)
    # step lemmas for everything (needed for PC soundness as well)
    steps = C.steps()
    lem = [('L%d' % i, [s]) for i, s in steps]
    rl = smt.run_checks(pre, lem, per_check_ms=opts.get('lemma_ms', 20000), jobs=opts.get('lemma_jobs', 4))
    res['lemmas'] = len(lem); res['lemmas_ok'] = sum(1 for v in rl.values() if v[0] == 'unsat')
    if opts.get('crosscheck') and lem:
        # second solver on a sample of the step lemmas (z3 5.1): a timeout is not a disagreement, sat vs unsat is
        import random as _r
        smp = _r.Random(len(lem)).sample(lem, min(4, len(lem)))
        r2 = smt.run_checks(pre, smp, per_check_ms=8000, jobs=1, solver='z3new', tactic='qfnra-nlsat')
        res['cross_checked'] = len(smp); res['cross_agree'] = sum(1 for k, v in r2.items() if v[0] == rl[k][0])
        res['cross_disagree'] = [k for k, v in r2.items() if v[0] in ('sat', 'unsat') and rl[k][0] in ('sat', 'unsat') and v[0] != rl[k][0]]
    res['lemma_fail'] = [k for k, v in rl.items() if v[0] != 'unsat'][:20]
    if res['feasible'] is False:
        res['time'] = time.time() - t0
        return res
    res['feasible'] = True if fz == 'sat' else None
    # side obligations
    side = []
    for k, (N, D, kk, sg) in enumerate(C.signs):
        side.append(('sign:%d' % k, r0['sign:%d' % k][0]))
    sidechecks = []
    for k, d in enumerate(C.denominators()):
        sidechecks.append(('den:%d' % k, pc + ["(= %s 0)" % C.poly_smt(d)]))
    for k, (kk_, A_) in enumerate(C.polar_inv):
        sidechecks.append(('polar_k:%d' % k, pc + ["(<= %s 0)" % C.rat_smt(kk_)]))
        sidechecks.append(('polar_A:%d' % k, pc + ["(not (and (< (- (/ 31415926535 10000000000)) %s) (<= %s (/ 31415926535 10000000000))))" % (C.rat_smt(A_), C.rat_smt(A_))]))
    for k, (N, D) in enumerate(C.nonneg):
        if N.is_ground and D.is_ground: continue
        sidechecks.append(('nonneg:%d' % k, pc + ["(< %s 0)" % C.rat_smt((N, D))]))
    # claims
    claimchecks = []; trivial = {}; cexchecks = []
    for (k, name, l, r) in path_claims:
        if k == 'EQ':
            vl, vr = C.val[l], C.val[r]
            if vl == vr:
                trivial[name] = True
                claimchecks.append(('claim:' + name, ["(not (= %s %s))" % (C.rat_smt(vl), C.rat_smt(vr))]))
            elif C.eqv(vl, vr):
                claimchecks.append(('claim:' + name, ["(not (= (* %s %s) (* %s %s)))" % (C.poly_smt(vl[0]), C.poly_smt(vr[1]), C.poly_smt(vr[0]), C.poly_smt(vl[1]))]))
            else:
                res['candidates'].append(name)
                res['claims'][name] = 'cf-mismatch'
                cexchecks.append(('cex:' + name, pc + ["(not (= (* %s %s) (* %s %s)))" % (C.poly_smt(vl[0]), C.poly_smt(vr[1]), C.poly_smt(vr[0]), C.poly_smt(vl[1]))]))
        else:
            op = '<=' if k == 'LE' else '<'
            claimchecks.append(('claim:' + name, pc + ["(not (%s %s %s))" % (op, C.rat_smt(C.val[l]), C.rat_smt(C.val[r]))]))
    rs = smt.run_checks(pre, sidechecks + claimchecks, per_check_ms=opts.get('per_check_ms', 20000), jobs=opts.get('jobs', 4))
    for lab, _ in sidechecks: side.append((lab, rs[lab][0]))
    if opts.get('nonfinite_check'):
        dens = C.denominators()
        bad = [dens[int(lab[4:])] for lab, _ in sidechecks if lab.startswith('den:') and rs[lab][0] == 'sat'][:3]
        if bad:
            try: res['den_roots'] = den_roots(C, entry, path, bad)
            except Exception as ex: res['den_roots_error'] = repr(ex)
            # the solver's own models of "denominator = 0 on this path" are candidate inputs as well (e.g. a unit complex number
            # at the half turn, which no ray through the witness reaches)
            try:
                badlabs = [lab for lab, _ in sidechecks if lab.startswith('den:') and rs[lab][0] == 'sat'][:3]
                rm = smt.run_checks(pre, [(lab, dict(sidechecks)[lab]) for lab in badlabs], per_check_ms=opts.get('per_check_ms', 20000), jobs=2, models=True, tactic='qfnra-nlsat')
                for lab in badlabs:
                    if rm[lab][0] != 'sat': continue
                    m = smt.parse_model(rm[lab][1])
                    mv = {int(k[1:]): val for k, val in m.items() if k[1:].isdigit() and int(k[1:]) in nodes and nodes[int(k[1:])].op == 'var'}
                    for asg in (complete_model(entry, path, mv) or [mv])[:2]:
                        res.setdefault('den_roots', []).append({k: float(v) for k, v in asg.items()})
            except Exception as ex: res['den_model_error'] = repr(ex)
    res['side'] = len(side); res['side_ok'] = sum(1 for _, v in side if v == 'unsat')
    res['side_fail'] = [(l, v) for l, v in side if v != 'unsat'][:20]
    for lab, _ in claimchecks:
        name = lab[6:]; v = rs[lab][0]
        if v == 'unsat': res['claims'][name] = 'proved'
        elif v == 'sat':
            res['claims'][name] = 'solver-sat'; res['candidates'].append(name)
            cexchecks.append(('cex:' + name, dict(claimchecks)[lab]))
        else:
            res['claims'][name] = 'undecided'; res['undecided'].append(name)
    if cexchecks and not opts.get('no_cex'):
        rc = smt.run_checks(pre, cexchecks[:8], per_check_ms=opts.get('cex_ms', 10000), jobs=opts.get('jobs', 4), models=True, tactic='qfnra-nlsat')
        res['cex_models'] = {}
        for lab, _ in cexchecks[:8]:
            v = rc[lab]
            res.setdefault('cex_status', {})[lab[4:]] = v[0]
            if v[0] == 'sat':
                m = smt.parse_model(v[1])
                res['cex_models'][lab[4:]] = {int(k[1:]): val for k, val in m.items() if k[1:].isdigit() and nodes[int(k[1:])].op == 'var'}
    if res['candidates'] and not res.get('cex_models') and not opts.get('no_cex') and fz == 'sat':
        # any point of a feasible path is a candidate when the canonical forms differ: take the feasibility model
        rf = smt.run_checks(pre, [('feasible', pc)], per_check_ms=opts.get('per_check_ms', 20000), jobs=1, models=True)
        if rf['feasible'][0] == 'sat':
            m = smt.parse_model(rf['feasible'][1])
            res.setdefault('cex_models', {})['__feasible__'] = {int(k[1:]): val for k, val in m.items() if k[1:].isdigit() and int(k[1:]) in nodes and nodes[int(k[1:])].op == 'var'}
    res['time'] = time.time() - t0
    res['_C'] = C
    return res

# ---------------------------------------------------------------------------
# numeric search on the hypothesis variety (sat-side helper; never used for "holds")

def _ratq(u):
    n2 = sum(x * x for x in u)
    return [2 * x / (1 + n2) for x in u] + [(1 - n2) / (1 + n2)]

def sample_assignments(entry, path, n, seed):
    """Exact rational assignments of the var nodes satisfying the unit hypotheses."""
    rnd = random.Random(seed)
    nodes = entry.nodes
    allvars = sorted(i for i in dagm.cone(nodes, [x for c in path.claims for x in c[2:] if x is not None] + [x for d in path.decisions for x in (d[0], d[2])]) if nodes[i].op == 'var')
    inq = {}
    for kind, ids in path.hyps:
        for j in ids: inq[j] = (kind, ids)
    out = []
    # variables boxed by assumed comparisons against constants (rounding variables, near-unit scales): sample inside the box
    lob, hib = {}, {}
    for (a, c, b) in path.assumes:
        if c in (0, 1) and nodes[a].op == 'const' and nodes[b].op == 'var': lob[b] = max(lob.get(b, Fraction(nodes[a].c)), Fraction(nodes[a].c))
        if c in (0, 1) and nodes[b].op == 'const' and nodes[a].op == 'var': hib[a] = min(hib.get(a, Fraction(nodes[b].c)), Fraction(nodes[b].c))
    boxed = {v: (lob[v], hib[v]) for v in lob if v in hib and lob[v] < hib[v]}
    scales = [1, 1, 1, Fraction(1, 10 ** 4), Fraction(1, 10 ** 9), 10 ** 3, Fraction(1, 10 ** 6)]
    for k in range(n):
        sc = scales[k % len(scales)] if k else 1
        rs = scales[(k // len(scales)) % len(scales)] if k else 1
        asg = {}
        done = set()
        for v in allvars:
            if v in done: continue
            if v in inq:
                kind, ids = inq[v]
                w = [nodes[j].w for j in ids]
                if kind == 'unitq':
                    sgn = 1 if (k % 3 != 2) else -1
                    den = 1 + abs(w[3])
                    base = [Fraction(w[j] / den).limit_denominator(1000) for j in range(3)]
                    if k: base = [b * Fraction(rnd.randint(500, 1500), 1000) * rs for b in base]
                    q = _ratq(base)
                    if w[3] < 0: q = [-x for x in q]
                    q = [sgn * x for x in q]
                    for j, x in zip(ids, q): asg[j] = x
                elif kind == 'unitc':
                    # re = (1-t^2)/(1+t^2), im = 2t/(1+t^2)
                    import math
                    ang = math.atan2(w[1], w[0])
                    if k: ang = ang * rnd.uniform(0.5, 1.5) * float(rs)
                    if k % 5 == 4: ang = math.pi - 1e-3 * rnd.random()
                    t = Fraction(math.tan(ang / 2)).limit_denominator(100000)
                    asg[ids[0]] = (1 - t * t) / (1 + t * t); asg[ids[1]] = 2 * t / (1 + t * t)
                done.update(ids)
            elif v in boxed:
                lo_, hi_ = boxed[v]
                asg[v] = (Fraction(nodes[v].w) if (k == 0 and lo_ <= Fraction(nodes[v].w) <= hi_) else lo_ + (hi_ - lo_) * Fraction(rnd.randint(1, 999), 1000)); done.add(v)
            else:
                b = Fraction(nodes[v].w).limit_denominator(1000)
                if k: b = b * Fraction(rnd.randint(500, 1500), 1000) * sc
                asg[v] = b; done.add(v)
        out.append(asg)
    return out

def complete_model(entry, path, m):
    """Turn a solver model (values of var nodes; algebraic ones may be missing) into assignments on the variety."""
    nodes = entry.nodes
    outs = [dict()]
    inq = set()
    for kind, ids in path.hyps:
        if kind not in ('unitq', 'unitc'): continue
        lead = ids[3] if kind == 'unitq' else ids[0]
        rest = [j for j in ids if j != lead]
        inq.update(ids)
        if not all(j in m for j in rest): return []
        s = 1 - sum(Fraction(m[j]) ** 2 for j in rest)
        if s < 0: return []
        import mpmath as mp
        root = mp.sqrt(mp.mpf(s.numerator) / mp.mpf(s.denominator))
        new = []
        for o in outs:
            for sg in (1, -1):
                o2 = dict(o)
                for j in rest: o2[j] = Fraction(m[j])
                o2[lead] = sg * root
                new.append(o2)
        outs = new
    for o in outs:
        for k, v in m.items():
            if k not in inq: o[k] = Fraction(v)
    return outs

def numeric_search(entry, path, names, nsamples=40, seed=0, tol=1e-20, extra=(), scale_inputs=False):
    """Evaluate the named claims at exact points of the hypothesis variety that satisfy the path condition.
    Returns list of (name, assignment, lval, rval)."""
    import mpmath as mp
    mp.mp.dps = 60
    nodes = entry.nodes
    found = {}
    npc = 0
    cl = {c[1]: c for c in path.claims}
    ids = [x for nm in names for x in cl[nm][2:]] + [x for d in path.decisions for x in (d[0], d[2])] + [x for d in path.assumes for x in (d[0], d[2])]
    def tomp(v):
        return mp.mpf(v.numerator) / mp.mpf(v.denominator) if isinstance(v, Fraction) else mp.mpf(v)
    # solver models may sit exactly on a boundary of the path condition and are printed as truncated decimals:
    # also try tiny relative perturbations of them
    import random as _rnd
    rr = _rnd.Random(seed)
    jitter = []
    for asg in list(extra)[:4]:
        for sz in (1e-26, 1e-20, 1e-17, 1e-15):
            for _ in range(8):
                jitter.append({k: (tomp(v) * (1 + mp.mpf(sz) * rr.uniform(-1, 1))) for k, v in asg.items()})
    for asg in list(extra) + jitter + sample_assignments(entry, path, nsamples, seed):
        try:
            val = dagm.numeval(nodes, ids, {k: tomp(v) for k, v in asg.items()}, mp)
        except Exception:
            continue
        ok = True
        for (a, c, b, t) in list(path.decisions) + [(a, c, b, True) for (a, c, b) in path.assumes]:
            va, vb = val[a], val[b]
            tv = {0: va < vb, 1: va <= vb, 2: va == vb, 3: va != vb}[c]
            if bool(tv) != bool(t): ok = False; break
        if not ok: continue
        npc += 1
        for nm in names:
            if nm in found: continue
            k, _, l, r = cl[nm]
            lv, rv = val[l], val[r]
            if mp.isnan(lv) or mp.isnan(rv): continue
            sc = max(1, abs(lv), abs(rv)) if scale_inputs else max(abs(lv), abs(rv), mp.mpf(10) ** -300)
            if scale_inputs: sc = max([sc] + [abs(tomp(v)) for v in asg.values()])
            bad = (abs(lv - rv) > tol * sc) if k == 'EQ' else ((lv > rv) if k == 'LE' else (lv >= rv))
            if bad: found[nm] = (asg, float(lv), float(rv))
    return found, npc


def _poly_eval(C, p, val, mp):
    tot = mp.mpf(0)
    for mon, coef in p.terms():
        t = mp.mpf(int(coef.numerator)) / mp.mpf(int(coef.denominator))
        for gi, e in zip(C.atoms, mon):
            if e: t *= val[gi] ** e
        tot += t
    return tot

def den_roots(C, entry, path, dens, nscan=1200):
    """sat-side helper: zeros of a denominator along the ray through the witness (rotation variables scaled)."""
    import mpmath as mp
    mp.mp.dps = 40
    nodes = entry.nodes
    rotvars = set()
    for (i, inside) in C.sqrt_defs:
        for mon, coef in inside.terms():
            for gi, e in zip(C.atoms, mon):
                if e and nodes[gi].op == 'var': rotvars.add(gi)
    if not rotvars:
        for kk, A in C.trigargs.items():
            for mon, coef in A[0].terms():
                for gi, e in zip(C.atoms, mon):
                    if e and nodes[gi].op == 'var': rotvars.add(gi)
    if not rotvars: return []
    allvars = [a for a in C.atoms if a >= 0 and nodes[a].op == 'var']
    atoms = [a for a in C.atoms if a >= 0]
    base = {v: mp.mpf(nodes[v].w) for v in allvars}
    nrm = mp.sqrt(sum(base[v] ** 2 for v in rotvars)) or mp.mpf(1)
    def point(theta):
        asg = dict(base)
        for v in rotvars: asg[v] = base[v] / nrm * theta
        return asg
    out = []
    for d in dens:
        def f(theta):
            val = dagm.numeval(nodes, atoms, point(theta), mp)
            return _poly_eval(C, d, val, mp)
        prev_t, prev_v = None, None
        hist = []
        for k in range(1, nscan + 1):
            th = mp.mpf(13) * k / nscan
            try: v = f(th)
            except Exception: prev_t = None; continue
            if prev_t is not None and (v == 0 or (v > 0) != (prev_v > 0)):
                lo, hi, flo = prev_t, th, prev_v
                for _ in range(80):
                    mid = (lo + hi) / 2; fm = f(mid)
                    if (fm > 0) == (flo > 0): lo, flo = mid, fm
                    else: hi = mid
                for cand in (lo, hi):
                    asg = point(cand)
                    out.append({v_: float(x) for v_, x in asg.items()})
            prev_t, prev_v = th, v
            hist.append((th, abs(v)))
            if len(hist) >= 3 and hist[-2][1] < hist[-3][1] and hist[-2][1] < hist[-1][1]:
                # local minimum of |den| (a zero without sign change, e.g. 1 + cos(theta) at pi): ternary search
                lo, hi = hist[-3][0], hist[-1][0]
                for _ in range(120):
                    m1 = lo + (hi - lo) / 3; m2 = hi - (hi - lo) / 3
                    if abs(f(m1)) < abs(f(m2)): hi = m2
                    else: lo = m1
                mid = (lo + hi) / 2
                scale = max(hist[-3][1], hist[-1][1], mp.mpf(10) ** -30)
                if abs(f(mid)) < scale * mp.mpf(10) ** -12:
                    import math as _m
                    asg = point(mid); fa = {v_: float(x) for v_, x in asg.items()}
                    out.append(fa)
                    # neighbouring doubles of the magnitude as well (the real code evaluates libm at doubles)
                    for dlt in (-1, 1):
                        asg2 = point(mid * (1 + dlt * mp.mpf(2) ** -52)); out.append({v_: float(x) for v_, x in asg2.items()})
        if len(out) >= 12: break
    return out[:12]

def solver_confirm(entry, path, name, asg, timeout_ms=20000):
    """Direct encoding of the raw DAG with the inputs pinned to the candidate point: the solver must return sat
    for the negated claim (transcendental atoms are enclosed by 1e-30-wide intervals computed at the pinned argument)."""
    import mpmath as mp
    mp.mp.dps = 60
    nodes = entry.nodes
    cl = {c[1]: c for c in path.claims}[name]
    k, _, l, r = cl
    need = sorted(dagm.cone(nodes, [l, r]))
    def tomp(v): return mp.mpf(v.numerator) / mp.mpf(v.denominator) if isinstance(v, Fraction) else mp.mpf(v)
    val = dagm.numeval(nodes, [l, r], {kk: tomp(v) for kk, v in asg.items()}, mp)
    BIN = {'add': '+', 'sub': '-', 'mul': '*', 'div': '/'}
    L = []
    def box(i, v):
        w = abs(v) * mp.mpf(10) ** -30 + mp.mpf(10) ** -40
        lo = Fraction(int(mp.floor((v - w) * 10 ** 45)), 10 ** 45); hi = Fraction(int(mp.ceil((v + w) * 10 ** 45)), 10 ** 45)
        return "(assert (and (<= %s n%d) (<= n%d %s)))" % (smt.rat(lo), i, i, smt.rat(hi))
    for i in need:
        n = nodes[i]
        if n.op == 'var':
            L.append("(declare-fun n%d () Real)" % i)
            v = asg.get(i)
            if isinstance(v, Fraction): L.append("(assert (= n%d %s))" % (i, smt.rat(v)))
            else: L.append(box(i, val[i]))
        elif n.op == 'const': L.append("(define-fun n%d () Real %s)" % (i, smt.rat(n.c)))
        elif n.op in BIN: L.append("(define-fun n%d () Real (%s n%d n%d))" % (i, BIN[n.op], n.a, n.b))
        elif n.op == 'neg': L.append("(define-fun n%d () Real (- n%d))" % (i, n.a))
        elif n.op == 'abs': L.append("(define-fun n%d () Real (ite (>= n%d 0) n%d (- n%d)))" % (i, n.a, n.a, n.a))
        else:
            L.append("(declare-fun n%d () Real)" % i); L.append(box(i, val[i]))
    for kind, ids in path.hyps:
        if kind in ('unitq', 'unitc') and all(j in need for j in ids):
            L.append("(assert (= (+ %s) 1))" % ' '.join("(* n%d n%d)" % (j, j) for j in ids))
    neg = {'EQ': "(not (= n%d n%d))", 'LE': "(not (<= n%d n%d))", 'LT': "(not (< n%d n%d))"}[k] % (l, r)
    rr = smt.run_checks(L, [('confirm', [neg])], per_check_ms=timeout_ms, jobs=1)
    return rr['confirm'][0]
