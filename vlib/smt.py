"""Solver sessions. Primary back end: z3 4.8.12 CLI with (check-sat-using qfnra-nlsat).
Queries are batched in push/pop scripts, one process per batch; every check is
labelled by an (echo ...) line. Any `(error` line makes the affected answers inconclusive."""
import os, subprocess, time, tempfile, re, shutil
from fractions import Fraction
from concurrent.futures import ThreadPoolExecutor

Z3 = '/usr/bin/z3'
Z3NEW = shutil.which('z3-new') or 'z3-new'
CVC5 = '/usr/bin/cvc5'
NPROC = int(os.environ.get('VERIF_JOBS', '16'))

class Stats:
    def __init__(self):
        self.queries = 0; self.time = 0.0; self.by_result = {}; self.procs = 0
    def add(self, res, n=1):
        self.by_result[res] = self.by_result.get(res, 0) + n
STATS = Stats()

def rat(c):
    f = Fraction(c)
    if f.denominator == 1:
        return str(f.numerator) if f >= 0 else "(- %d)" % (-f.numerator)
    s = "(/ %d %d)" % (abs(f.numerator), f.denominator)
    return s if f >= 0 else "(- %s)" % s

def batch_script(preamble, checks, per_check_ms=20000, tactic='qfnra-nlsat', logic='QF_NRA', models=False):
    """checks: list of (label, [assert strings]). Returns script text."""
    L = ["(set-logic %s)" % logic] if logic else []
    if models: L += ["(set-option :produce-models true)", "(set-option :pp.decimal true)", "(set-option :pp.decimal_precision 30)"]
    L += preamble
    for label, asserts in checks:
        L.append("(push)")
        for a in asserts: L.append("(assert %s)" % a)
        L.append('(echo "@@ %s")' % label)
        if tactic: L.append("(check-sat-using (try-for %s %d))" % (tactic, per_check_ms))
        else: L.append("(check-sat)")
        if models: L.append("(get-model)")
        L.append("(pop)")
    return "\n".join(L) + "\n"

def parse_batch(out):
    """-> dict label -> (result, model text)"""
    res = {}; cur = None; buf = []
    for line in out.splitlines():
        line = line.rstrip()
        s = line.strip().strip('"')
        if s.startswith('@@ '):
            cur = s[3:]; res[cur] = ['noanswer', '']; continue
        if cur is None: continue
        if line.strip() in ('sat', 'unsat', 'unknown') and res[cur][0] == 'noanswer':
            res[cur][0] = line.strip()
        elif '(error' in line:
            if 'model is not available' in line: continue
            res[cur][0] = 'error'; res[cur][1] += line + '\n'
        else:
            res[cur][1] += line + '\n'
    return {k: tuple(v) for k, v in res.items()}

def run_script(text, solver='z3', timeout=120, workdir=None):
    t0 = time.time()
    fd, fn = tempfile.mkstemp(suffix='.smt2', dir=workdir)
    os.write(fd, text.encode()); os.close(fd)
    if solver == 'z3': cmd = [Z3, '-T:%d' % timeout, fn]
    elif solver == 'z3new': cmd = [Z3NEW, '-T:%d' % timeout, fn]
    else: cmd = [CVC5, '--tlimit=%d' % (timeout * 1000), '--incremental', fn]
    try:
        r = subprocess.run(cmd, capture_output=True, text=True, timeout=timeout + 10)
        out = r.stdout + r.stderr
    except subprocess.TimeoutExpired as e:
        out = (e.stdout or b'').decode() if isinstance(e.stdout, bytes) else (e.stdout or '')
    os.unlink(fn)
    STATS.time += time.time() - t0; STATS.procs += 1
    return out

def run_checks(preamble, checks, per_check_ms=20000, jobs=None, solver='z3', tactic='qfnra-nlsat', workdir=None, models=False, chunk=None):
    """Run labelled checks, split over processes. Returns dict label -> (result, model)."""
    if not checks: return {}
    jobs = jobs or NPROC
    if chunk is None:
        chunk = max(1, min(60, (len(checks) + jobs - 1) // jobs))
    parts = [checks[i:i + chunk] for i in range(0, len(checks), chunk)]
    if solver == 'cvc5':
        tactic = None
    def one(part):
        if solver == 'cvc5':
            txt = batch_script(preamble, part, per_check_ms, None, 'QF_NRA', models)
        else:
            txt = batch_script(preamble, part, per_check_ms, tactic, 'QF_NRA' if solver == 'z3' else None, models)
        out = run_script(txt, solver, timeout=max(30, per_check_ms * len(part) // 1000 + 30), workdir=workdir)
        r = parse_batch(out)
        for label, _ in part:
            if label not in r: r[label] = ('noanswer', '')
        return r
    res = {}
    with ThreadPoolExecutor(max(1, min(jobs, len(parts)))) as ex:
        for r in ex.map(one, parts): res.update(r)
    STATS.queries += len(checks)
    for v in res.values(): STATS.add(v[0])
    return res

def parse_model(text):
    """Parse z3 (get-model) output into {name: Fraction or float}; algebraic numbers approximated."""
    m = {}
    for mm in re.finditer(r'\(define-fun\s+(\S+)\s+\(\)\s+Real\s+(.*?)\)\s*(?=\(define-fun|\)\s*$|$)', text, re.S):
        name, body = mm.group(1), mm.group(2).strip()
        v = _eval_sexpr(body)
        if v is not None: m[name] = v
    return m

def _tok(s):
    return re.findall(r'\(|\)|[^\s()]+', s)

def _eval_sexpr(s):
    toks = _tok(s)
    pos = [0]
    def ev():
        t = toks[pos[0]]; pos[0] += 1
        if t == '(':
            op = toks[pos[0]]; pos[0] += 1
            if op == 'root-obj':
                # (root-obj (poly) k) : skip, cannot evaluate exactly
                depth = 1
                while depth:
                    tt = toks[pos[0]]; pos[0] += 1
                    depth += tt == '('; depth -= tt == ')'
                return None
            args = []
            while toks[pos[0]] != ')': args.append(ev())
            pos[0] += 1
            if any(a is None for a in args): return None
            if op == '-': return -args[0] if len(args) == 1 else args[0] - sum(args[1:])
            if op == '+': return sum(args)
            if op == '*':
                r = Fraction(1)
                for a in args: r *= a
                return r
            if op == '/': return args[0] / args[1] if args[1] != 0 else None
            return None
        try:
            if t.endswith('?'): t = t[:-1]
            return Fraction(t)
        except Exception:
            return None
    try: return ev()
    except Exception: return None
