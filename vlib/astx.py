"""Integer/control-flow slice of manif::decasteljau (DESIGN 3.6), regenerated from /repo's current source on every run.

The function body is taken from include/manif/algorithms/decasteljau.h; statements are copied verbatim except for
container operations, which are rewritten to bounded index arrays, and group operations, which become opaque.
`&trajectory[e]` becomes "record index e" with the in-bounds assertion e < N. unsigned int -> uint32_t and size_t ->
uint64_t so that wrap-around is preserved. A construct the slicer does not know raises SliceError (no verdict)."""
import re, os

class SliceError(Exception):
    pass

FLOATS_IN_SLICE = False
MAXSEG = 18
MAXPTS = 20

PRELUDE = r'''
#include <stdint.h>
#include <math.h>
#include <assert.h>
#ifndef NATIVE
uint32_t nondet_u32(void); uint64_t nondet_u64(void); _Bool nondet_bool(void);
#define ASSUME(c) __CPROVER_assume(c)
#else
#define ASSUME(c) if(!(c)) return 0
#define __CPROVER_assert(c,m) if(!(c)) { viol(m); } else (void)0
#include <stdio.h>
static void viol(const char* m){ printf("FAIL %%s\n", m); }
#endif
#define MAXSEG %(MAXSEG)d
#define MAXPTS %(MAXPTS)d
uint32_t seg_len[MAXSEG]; uint64_t seg_idx[MAXSEG][MAXPTS]; uint32_t nseg;
int64_t Qs[MAXPTS], Qs_tmp[MAXPTS]; uint64_t qs_len, tmp_len; uint64_t curve_len; int64_t curve_last;
int raised, overflow;
uint64_t N;
#define REC(e) { uint64_t _e=(e); __CPROVER_assert(_e < N, "P1 input element index in bounds"); if(!(_e<N)){ overflow=1; return 0; } \
   __CPROVER_assert(nseg>0 && seg_len[nseg-1] < MAXPTS, "P8 window size within bound"); if(!(nseg>0 && seg_len[nseg-1]<MAXPTS)){ overflow=1; return 0; } seg_idx[nseg-1][seg_len[nseg-1]++]=_e; }
#define NEWSEG() { __CPROVER_assert(nseg < MAXSEG, "window count within bound"); if(!(nseg<MAXSEG)){ overflow=1; return 0; } seg_len[nseg]=0; nseg++; }
#define CHECK(c) if(!(c)){ raised=1; return 0; }
'''

def extract_body(src):
    m = re.search(r'decasteljau\s*\(\s*const\s+std::vector<LieGroup>&\s*trajectory\s*,(.*?)\)\s*\{', src, re.S)
    if not m: raise SliceError('decasteljau signature not found')
    params = m.group(1)
    i = m.end(); depth = 1; j = i
    while depth:
        c = src[j]
        depth += c == '{'; depth -= c == '}'
        j += 1
    return params, src[i:j - 1]

def strip_comments(s):
    s = re.sub(r'/\*.*?\*/', '', s, flags=re.S)
    return re.sub(r'//[^\n]*', '', s)

def slice_to_c(repo):
    src = open(os.path.join(repo, 'include/manif/algorithms/decasteljau.h')).read()
    params, body = extract_body(src)
    body = strip_comments(body)
    pnames = re.findall(r'(\w+)\s*(?:=\s*\w+)?\s*(?:,|$)', params.replace('\n', ' '))
    if [p for p in pnames if p in ('degree', 'k_interp', 'closed_curve')] != ['degree', 'k_interp', 'closed_curve']:
        raise SliceError('unexpected parameter list: %r' % params)
    b = body
    # MANIF_CHECK(cond, "msg");
    b = re.sub(r'MANIF_CHECK\(\s*(.*?),\s*"[^"]*"\s*\)\s*;', lambda m: 'CHECK(%s);' % m.group(1), b, flags=re.S)
    # container declarations
    b = re.sub(r'std::vector<std::vector<const LieGroup\*>>\s+segments_control_points\s*;', 'nseg=0;', b)
    b = re.sub(r'std::vector<LieGroup>\s+curve\s*;', 'curve_len=0; curve_last=-1; uint64_t seg_first_count=0; ', b)
    b = re.sub(r'std::vector<LieGroup>\s+Qs\s*,\s*Qs_tmp\s*;', 'qs_len=0; tmp_len=0;', b)
    # container operations
    b = re.sub(r'segments_control_points\.emplace_back\(\s*std::vector<const LieGroup\*>\(\)\s*\)\s*;', 'NEWSEG();', b)
    b = re.sub(r'segments_control_points\.back\(\)\.push_back\(\s*&trajectory\[(.*?)\]\s*\)\s*;', lambda m: 'REC(%s);' % m.group(1), b, flags=re.S)
    b = re.sub(r'for\s*\(\s*const\s+auto\s+m\s*:\s*segments_control_points\[(\w+)\]\s*\)\s*Qs\.emplace_back\(\*m\)\s*;',
               lambda m: 'for (uint32_t _c=0; _c<seg_len[%s]; ++_c) { Qs[qs_len++]=(int64_t)seg_idx[%s][_c]; }' % (m.group(1), m.group(1)), b)
    b = re.sub(r'Qs_tmp\.push_back\(\s*Qs\[q\]\.rplus\(\s*Qs\[q\+1\]\.rminus\(Qs\[q\]\)\s*\*\s*(\w+)\s*\)\s*\)\s*;',
               lambda m: '{ __CPROVER_assert(q+1 < qs_len, "P1 Qs index in bounds"); if(!(q+1<qs_len)){overflow=1; return 0;} if(tmp_len>=MAXPTS){overflow=1; return 0;} Qs_tmp[tmp_len++] = (%s==1.0) ? Qs[q+1] : ((%s==0.0) ? Qs[q] : -1); }' % (m.group(1), m.group(1)), b, flags=re.S)
    b = re.sub(r'Qs\s*=\s*Qs_tmp\s*;', 'for(uint64_t _c=0;_c<tmp_len;++_c) Qs[_c]=Qs_tmp[_c]; qs_len=tmp_len;', b)
    b = re.sub(r'Qs_tmp\.clear\(\)\s*;', 'tmp_len=0;', b)
    b = re.sub(r'curve\.push_back\(\s*Qs\[0\]\s*\)\s*;', '{ __CPROVER_assert(qs_len>0, "P1 Qs[0] exists"); if(!(qs_len>0)){overflow=1; return 0;} curve_last=Qs[0]; curve_len++; seg_count++; }', b)
    # a curve point taken directly from the input trajectory by index
    b = re.sub(r'curve\.push_back\(\s*trajectory\[(.*?)\]\s*\)\s*;', lambda m: '{ __CPROVER_assert((uint64_t)(%s) < N, "P1 input element index in bounds"); if(!((uint64_t)(%s) < N)){overflow=1; return 0;} curve_last=(int64_t)(%s); curve_len++; seg_count++; }' % (m.group(1), m.group(1), m.group(1)), b, flags=re.S)
    b = b.replace('Qs.size()', 'qs_len').replace('segments_control_points.size()', 'nseg').replace('trajectory.size()', 'N')
    b = re.sub(r'return\s+curve\s*;', 'return 1;', b)
    # floating point: the two places where doubles carry small integers are rewritten to exact integer arithmetic
    # (floor(double(a)/double(b)) == a div b and double(t)/k == 1.0 <=> t == k hold exactly for operands < 2^20; stated assumption)
    b, n1 = re.subn(r'static_cast<\s*unsigned int\s*>\s*\(\s*std::floor\(\s*double\((.*?)\)\s*/\s*double\((.*?)\)\s*\)\s*\)', lambda m: '(uint32_t)((uint64_t)(%s) / (uint64_t)(%s))' % (m.group(1), m.group(2)), b, flags=re.S)
    b, n2 = re.subn(r'const\s+double\s+t_01\s*=\s*static_cast<\s*double\s*>\s*\(\s*(\w+)\s*\)\s*/\s*\(?\s*(\w+)\s*\)?\s*;', lambda m: 'uint32_t t_01_num = %s, t_01_den = %s; __CPROVER_assert(t_01_den != 0, "division by zero in t_01");' % (m.group(1), m.group(2)), b)
    if n2: b = b.replace('(t_01==1.0)', '(t_01_num==t_01_den)').replace('(t_01==0.0)', '(t_01_num==0)')
    # any other floating-point code is kept verbatim (C-compatible after the cast rewrites below) and left to CBMC's
    # bit-precise float model; the evidence records that floats were present in the slice
    global FLOATS_IN_SLICE
    FLOATS_IN_SLICE = bool(re.search(r'\bdouble\b|\bfloat\b', b))
    if re.search(r'\bfloat\b', b): raise SliceError('single-precision float in the slice')
    # types / casts
    b = re.sub(r'static_cast<\s*unsigned int\s*>\s*\(', '(uint32_t)(', b)
    b = re.sub(r'static_cast<\s*double\s*>\s*\(', '(double)(', b)
    b = re.sub(r'\bconst\s+unsigned int\b', 'uint32_t', b); b = re.sub(r'\bunsigned int\b', 'uint32_t', b)
    b = re.sub(r'\bconst\s+double\b', 'double', b); b = re.sub(r'\bconst\s+bool\b', '_Bool', b)
    b = b.replace('std::floor', 'floor').replace('std::size_t', 'uint64_t')
    b = re.sub(r'\bdouble\(', '(double)(', b)
    # per-window bookkeeping: wrap the body of the outermost loop over windows
    m = re.search(r'for\s*\(\s*uint32_t\s+s\s*=\s*0\s*;\s*s\s*<\s*nseg\s*;\s*\+\+s\s*\)\s*\{', b)
    if not m: raise SliceError('loop over windows not recognised')
    i = m.end(); depth = 1; j = i
    while depth:
        c = b[j]; depth += c == '{'; depth -= c == '}'; j += 1
    inner = b[i:j - 1]
    b = b[:i] + ' uint64_t seg_count=0; ' + inner + '''
      __CPROVER_assert(curve_last == (int64_t)seg_idx[s][seg_len[s]-1], "P6 last curve point of a window is its last control point");
      if (s==0) seg_first_count=seg_count;
      __CPROVER_assert(seg_count == seg_first_count, "P6 same number of curve points for each window");
      __CPROVER_assert(seg_count == (uint64_t)((degree==2)? k_interp : k_interp*degree), "P6 documented number of curve points per window");
    ''' + b[j - 1:]
    # anything left that looks like C++ we do not understand?
    for bad in ('std::', 'LieGroup', 'trajectory', '.push_back', '.emplace_back', 'auto ', '->', 'template', '.size()', 'static_cast'):
        if bad in b:
            k = b.index(bad)
            raise SliceError('unrecognised construct near: %r' % b[max(0, k - 60):k + 60])
    # two verification units: (A) window construction, (B) curve fitting of the windows built by (A) replaced by one arbitrary window
    k = b.index('curve_len=0;')
    k0 = b.rfind('uint32_t segment_k_interp', 0, k)
    if k0 < 0: raise SliceError('segment_k_interp declaration not found')
    partA = b[:k0] + '\n  return 1;\n'
    partB = b[k0:]
    func = ('int decasteljau_windows(uint32_t degree, uint32_t k_interp, _Bool closed_curve)\n{\n' + partA + '\n}\n' +
            'int decasteljau_fit(uint32_t degree, uint32_t k_interp, _Bool closed_curve)\n{\n' + partB + '\n}\n')
    return PRELUDE % {'MAXSEG': MAXSEG, 'MAXPTS': MAXPTS} + func

HARNESS = r'''
#ifndef NATIVE
#ifdef UNIT_A
int main(void){
  N = nondet_u64(); uint32_t degree = nondet_u32(), k = nondet_u32(); _Bool closed = nondet_bool();
  ASSUME(N <= NMAX); ASSUME(degree <= NMAX + 1); ASSUME(k <= KMAX); ASSUME(degree >= 2);
#ifdef ONLY_OPEN
  ASSUME(!closed);
#endif
#ifdef ONLY_CLOSED
  ASSUME(closed);
#endif
  raised = 0; overflow = 0; nseg = 0;
  int ret = decasteljau_windows(degree, k, closed);
  _Bool must_raise = (N < 3) || (degree > N) || (k == 0);
  __CPROVER_assert(!(must_raise && !raised), "P7 invalid arguments raise");
  __CPROVER_assert(!(raised && !must_raise), "P7 valid arguments do not raise");
  if (ret && !raised) {
    uint32_t expect_open = (uint32_t)((N - 1) / (degree - 1));
    if (closed) { __CPROVER_assert(nseg == expect_open + 1, "P3c closed: maximal windows plus one wrapping window"); }
    else { __CPROVER_assert(nseg == expect_open, "P3 maximal number of windows"); }
    for (uint32_t w = 0; w < nseg && w < expect_open; ++w) {
      __CPROVER_assert(seg_len[w] == degree, "P5 window has degree control points");
      for (uint32_t c = 0; c < seg_len[w] && c < MAXPTS; ++c)
        __CPROVER_assert(seg_idx[w][c] == (uint64_t)w * (degree - 1) + c, "P4 window w covers indices w(d-1)..w(d-1)+d-1");
    }
    if (closed && nseg == expect_open + 1) {
      uint32_t w = nseg - 1;
      __CPROVER_assert(seg_len[w] == degree, "P5c wrapping window has degree control points");
      __CPROVER_assert(seg_len[w] > 0 && seg_idx[w][seg_len[w]-1] < degree, "P4c wrapping window ends at the start of the trajectory");
    }
  }
  return 0;
}
#else
int main(void){
  /* unit B: the fitting loops on ONE arbitrary window of `degree` control points with arbitrary indices */
  N = nondet_u64(); uint32_t degree = nondet_u32(), k = nondet_u32();
  ASSUME(N >= 3 && N <= NMAX); ASSUME(degree >= 2 && degree <= N); ASSUME(k >= 1 && k <= KMAX);
  raised = 0; overflow = 0; nseg = 1; seg_len[0] = degree;
  for (uint32_t c = 0; c < NMAX; ++c) { uint64_t e = nondet_u64(); ASSUME(e < N); seg_idx[0][c] = e; }
  int ret = decasteljau_fit(degree, k, 0);
  __CPROVER_assert(ret == 1 && !overflow, "fit completes");
  __CPROVER_assert(curve_len == (uint64_t)((degree==2)? k : k*degree), "P6 output length = points per window");
  return 0;
}
#endif
#else
#include <stdlib.h>
int main(int argc, char** argv){
  N = strtoull(argv[1],0,10); uint32_t degree = atoi(argv[2]), k = atoi(argv[3]); _Bool closed = atoi(argv[4]);
  raised=0; overflow=0; nseg=0; int ret = decasteljau_windows(degree, k, closed); if (ret && !raised) ret = decasteljau_fit(degree, k, closed);
  printf("raised=%d overflow=%d nseg=%u curve_len=%llu", raised, overflow, nseg, (unsigned long long)curve_len);
  for (uint32_t w=0; w<nseg; ++w){ printf(" |"); for(uint32_t c=0;c<seg_len[w];++c) printf(" %llu",(unsigned long long)seg_idx[w][c]); }
  printf("\n"); return 0;
}
#endif
'''
