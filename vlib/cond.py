"""COND-lite (DESIGN 3.3, restricted): amplification of libm rounding errors on the generic branches.

Model: every libm result a (sin, cos, sqrt atoms) carries a relative error |delta_a| <= 2u (u = 2^-53); to first order the
output moves by  delta_a * a * d(out)/d(a).  For every output and every atom the solver bounds  2u |a d(out)/da| <= tol
on decades of the rotation magnitude sigma in (sqrt(eps), 1], per monomial of the remaining variables (as in TRUNC).
A refuted bound is only a *necessary-condition* failure in the model; it is reported only if the real double build
reproduces the excess error against a 60-digit evaluation of the same DAG at a point placed by the solver's model."""
import time, random
from fractions import Fraction
from . import dag as dagm, cf as cfm, smt, prove, trunc

U = Fraction(1, 2 ** 53)
TOL = Fraction(1, 10 ** 6)
DECADES = [(Fraction(23, 10 ** 15), Fraction(1, 10 ** 12)), (Fraction(1, 10 ** 12), Fraction(1, 10 ** 10)), (Fraction(1, 10 ** 10), Fraction(1, 10 ** 8)), (Fraction(1, 10 ** 8), Fraction(149, 10 ** 9)),
           (Fraction(149, 10 ** 9), Fraction(1, 10 ** 6)), (Fraction(1, 10 ** 6), Fraction(1, 10 ** 5)), (Fraction(1, 10 ** 5), Fraction(1, 10 ** 4)),
           (Fraction(1, 10 ** 4), Fraction(1, 10 ** 3)), (Fraction(1, 10 ** 3), Fraction(1, 10 ** 2)), (Fraction(1, 10 ** 2), Fraction(1, 10)), (Fraction(1, 10), Fraction(1))]

def generic_path(entry, path):
    return len(trunc.small_decisions(entry, path)) == 0

def find_angle(C, entry, path):
    """Angle atoms of a generic path: sigma (sqrt atom whose inside is a sum of squares of variables) or a single variable, plus trig atoms."""
    nodes = entry.nodes
    ctx = trunc.Ctx(); ctx.angle = set(); ctx.small = {}; ctx.cons = []; ctx.sigma = None
    for (i, inside) in C.sqrt_defs:
        ok = all(sum(1 for e in mon if e) == 1 and sum(mon) == 2 and coef == 1 for mon, coef in inside.terms())
        if ok and ctx.sigma is None:
            ctx.sigma = i; ctx.inside = inside; ctx.angle.add(i)
            for mon, coef in inside.terms():
                for gi, e in zip(C.atoms, mon):
                    if e: ctx.small[gi] = i
    trig = [a for a in C.atoms if a >= 0 and nodes[a].op in ('sin', 'cos')]
    if ctx.sigma is None:
        # 1-D rotation: the trig argument is a variable
        for kk, A in C.trigargs.items():
            sup = trunc.support(C, A[0])
            if len(sup) == 1 and nodes[next(iter(sup))].op == 'var':
                ctx.sigma = next(iter(sup)); ctx.angle.add(ctx.sigma); ctx.onedim = True
                break
    for a in trig: ctx.angle.add(a)
    if ctx.sigma is None: raise ValueError('no rotation magnitude atom on this path')
    return ctx

def cond_path(entry, path, opts):
    t0 = time.time()
    res = {'path': path.idx, 'claims': {}, 'queries': 0, 'queries_ok': 0, 'refuted': {}, 'notes': []}
    class P2: pass
    p2 = P2(); p2.__dict__.update(path.__dict__); p2.claims = []
    outs = sorted(path.outs.items())
    p2.claims = [('EQ', '__o__' + nm, i, i) for nm, i in outs]
    roots = [i for nm, i in outs] + [x for d in path.decisions for x in (d[0], d[2])] + [x for d in path.assumes for x in (d[0], d[2])]
    try:
        C = cfm.Canon(entry.nodes, roots, path.hyps).run(roots)
    except cfm.CFError as e:
        res['cf_error'] = str(e); return res
    try: ctx = find_angle(C, entry, path)
    except ValueError as e:
        res['skip'] = str(e); return res
    sg = 'n%d' % ctx.sigma
    decl = ["(declare-fun n%d () Real)" % a for a in sorted(ctx.angle)] + ["(define-fun absr ((x Real)) Real (ite (>= x 0) x (- x)))"]
    base = trunc.enclosures(C, ctx)
    for (a_, c_, b_, t_) in path.decisions:
        va, vb = C.val[a_], C.val[b_]
        sup = trunc.support(C, trunc.to_sigma(C, ctx, va[0])) | trunc.support(C, va[1]) | trunc.support(C, trunc.to_sigma(C, ctx, vb[0])) | trunc.support(C, vb[1])
        if sup and sup <= ctx.angle:
            va2 = (trunc.to_sigma(C, ctx, va[0]), va[1]); vb2 = (trunc.to_sigma(C, ctx, vb[0]), vb[1])
            e_ = "(%s %s %s)" % (prove.CMP[c_], C.rat_smt(va2), C.rat_smt(vb2))
            base.append(e_ if t_ else "(not %s)" % e_)
    tol = Fraction(opts.get('cond_tol', TOL))
    # decades excluded by the path condition (e.g. below the small-angle switch-over) are not obligations
    regs = [["(< %s %s)" % (smt.rat(lo), sg), "(<= %s %s)" % (sg, smt.rat(hi))] for (lo, hi) in DECADES]
    rf = smt.run_checks(decl, [('reg%d' % di, base + regs[di]) for di in range(len(DECADES))], per_check_ms=5000, jobs=4, tactic='qfnra-nlsat')
    live = [di for di in range(len(DECADES)) if rf['reg%d' % di][0] != 'unsat']
    res['decades_live'] = live
    atoms = [a for a in ctx.angle if entry.nodes[a].op in ('sin', 'cos', 'sqrt')]
    checks = []; meta = {}
    for nm, i in outs:
        N, D = C.val[i]
        if N == 0 or (N.is_ground and D.is_ground): continue
        for a in atoms:
            ga = C.g[a]
            dN = N.diff(ga); dD = D.diff(ga)
            K = ga * (dN * D - N * dD)           # numerator of a * d(N/D)/da ; denominator D^2
            if K == 0: continue
            Dq = trunc.to_sigma(C, ctx, C.red(D * D)); Kq = trunc.alt_reduce(C, ctx, C.red(K))
            if not trunc.support(C, Dq) <= ctx.angle:
                res['notes'].append('%s: denominator depends on non-angle variables' % nm); continue
            parts = trunc.decompose(C, ctx, Kq)
            if any(any(entry.nodes[v].op != 'var' for v in m) for m, c in parts): continue
            share = tol / len(parts)
            amp = 2 * U
            for k, (m, cpoly) in enumerate(parts):
                fac = []
                for v, e in m.items():
                    if v in ctx.small and ctx.small[v] == ctx.sigma: fac += [sg] * e
                bound = "(* %s)" % ' '.join(['1'] + fac)
                for di in live:
                    reg = regs[di]
                    checks.append(('%s|%d|%d|%d' % (nm, a, k, di), base + reg + ["(> (* %s (absr %s) %s) (* %s (absr %s)))" % (smt.rat(amp), C.poly_smt(cpoly), bound, smt.rat(share), C.poly_smt(Dq))]))
            meta[(nm, a)] = len(parts)
    rs = smt.run_checks(decl, checks, per_check_ms=opts.get('cond_ms', 3000), jobs=opts.get('trunc_jobs', 12), tactic='qfnra-nlsat', chunk=16)
    res['queries'] = len(checks); res['queries_ok'] = sum(1 for v in rs.values() if v[0] == 'unsat')
    byout = {}
    for lab, _ in checks:
        nm, a, k, di = lab.split('|'); byout.setdefault((nm, int(di)), []).append(rs[lab][0])
    for (nm, di), lst in byout.items():
        key = '%s@sigma(%g,%g]' % (nm, float(DECADES[di][0]), float(DECADES[di][1]))
        if all(x == 'unsat' for x in lst): res['claims'][key] = 'bounded'
        elif any(x == 'sat' for x in lst): res['claims'][key] = 'refuted'; res['refuted'].setdefault(nm, []).append(di)
        else: res['claims'][key] = 'undecided'
    res['C_maxsize'] = C.maxsize; res['time'] = time.time() - t0
    return res

def concretise(entry, path, nm, di, n=24, seed=0):
    """Points in decade di for the double-build comparison: random direction, magnitude swept through the decade."""
    import mpmath as mp
    mp.mp.dps = 60
    rnd = random.Random(seed + di)
    nodes = entry.nodes
    i = path.outs[nm]
    ids = [i] + [x for d in path.decisions for x in (d[0], d[2])]
    allvars = sorted(v for v in dagm.cone(nodes, ids) if nodes[v].op == 'var')
    smallv = set()
    for v in allvars:
        if nodes[v].name.startswith('tw') or nodes[v].name in ('tth',): smallv.add(v)
    lo, hi = DECADES[di]
    pts = []
    for k in range(n):
        mag = mp.mpf(float(lo)) * (mp.mpf(float(hi)) / mp.mpf(float(lo))) ** mp.mpf(rnd.random())
        asg = {}
        d = [mp.mpf(rnd.uniform(-1, 1)) for _ in smallv]
        nr = mp.sqrt(sum(x * x for x in d)) or mp.mpf(1)
        for v, x in zip(sorted(smallv), d): asg[v] = mp.mpf(float(x / nr * mag))      # doubles exactly
        for v in allvars:
            if v not in smallv: asg[v] = mp.mpf(rnd.uniform(-1, 1))
        pts.append(asg)
    return pts
