"""TRUNC mode (DESIGN 3.3): closeness of a Taylor (small-angle) branch to the generic-branch formula on the
Taylor region.  The harness runs the real function twice - normally (Taylor branch on this path) and with the
eps-switch forced to the generic outcome - and records approx claims |taylor_i - generic_i| <= tol.
The difference is decomposed as sum_m c_m(angle atoms) * m(other variables); every |c_m| * bound(m) <= tol/#m is
a solver query over the angle atoms only (sigma, sin, cos, atan2, w) with alternating-series enclosures.
The triangle inequality that recombines the monomials is the only step not taken by the solver."""
import time, random
from fractions import Fraction
from . import dag as dagm, cf as cfm, smt, prove

TOL = {'value': Fraction(1, 10 ** 12), 'jac': Fraction(1, 10 ** 6)}

def small_decisions(entry, path):
    nodes = entry.nodes
    eps = prove.eps_const_ids(nodes)
    out = []
    for (a, c, b, t) in path.decisions:
        if c == 2: continue
        if b in eps and t: out.append((a, Fraction(nodes[b].c)))
        elif a in eps and not t: out.append((b, Fraction(nodes[a].c)))
    return out

class Ctx:
    pass

def analyse(C, entry, path):
    """Classify ring generators for the decomposition. Returns Ctx or raises ValueError(reason)."""
    nodes = entry.nodes; R = C.R; g = C.g
    sm = small_decisions(entry, path)
    if not sm: raise ValueError('no small-angle decision on this path')
    ctx = Ctx(); ctx.angle = set(); ctx.small = {}; ctx.cons = []; ctx.sigma = None
    inside_of = {i: inside for (i, inside) in C.sqrt_defs}
    for q, epsv in sm:
        Nq, Dq = C.val[q]
        if Dq != 1: raise ValueError('small quantity has a denominator')
        matched = False
        # single squared variable (1-D rotation)
        for v in C.atoms:
            if v >= 0 and nodes[v].op == 'var' and Nq == g[v] ** 2:
                ctx.angle.add(v); ctx.cons.append("(<= (* n%d n%d) %s)" % (v, v, smt.rat(epsv))); ctx.cons.append("(not (= n%d 0))" % v)
                matched = True; break
        if matched: continue
        # squared atan2 atom (SE2/SO2: theta = atan2(im, re))
        for at, v in C.atan.items():
            if v is None or Nq == 0: continue
            ratio = Nq.LC / (g[at] ** 2).LC
            if C.red(Nq - ratio * g[at] ** 2) == 0 and ratio > 0:
                cst = Fraction(int(ratio.numerator), int(ratio.denominator))
                ctx.angle.add(at); ctx.cons.append("(<= (* %s n%d n%d) %s)" % (smt.rat(cst), at, at, smt.rat(epsv))); ctx.cons.append("(not (= n%d 0))" % at)
                y, x, r = v
                for pp in (y[0], y[1], x[0], x[1], r[0], r[1]):
                    for a_ in support(C, pp): ctx.angle.add(a_)
                ctx.atan_angle = getattr(ctx, 'atan_angle', []) + [at]
                for gg, src in zip(C.G, C.Gsrc):
                    if src[0] == 'hyp' and support(C, gg) <= ctx.angle: ctx.cons.append("(= %s 0)" % C.poly_smt(gg))
                matched = True; break
        if matched: continue
        for i, inside in inside_of.items():
            for k, form in ((2, inside), (3, g[i] * inside), (4, inside * inside)):
                cst = None
                if form != 0 and Nq != 0:
                    ratio = Nq.LC / C.red(form).LC
                    if C.red(Nq - ratio * form) == 0: cst = Fraction(int(ratio.numerator), int(ratio.denominator))
                if cst is not None and cst > 0:
                    ctx.angle.add(i); ctx.sigma = i; ctx.inside = inside
                    ctx.cons.append("(> n%d 0)" % i)
                    ctx.cons.append("(<= (* %s %s) %s)" % (smt.rat(cst), ' '.join(['n%d' % i] * k), smt.rat(epsv)))
                    for mon, coef in inside.terms():
                        for gi, e in zip(C.atoms, mon):
                            if e and nodes[gi].op == 'var': ctx.small[gi] = i
                    matched = True; break
            if matched: break
        if not matched: raise ValueError('small quantity not recognised as v^2 or sigma^k')
    # trig / atan2 atoms are angle atoms
    for a in C.atoms:
        if a >= 0 and nodes[a].op in ('sin', 'cos', 'atan2'): ctx.angle.add(a)
    # lead variable of a unit hypothesis whose other variables are all small: w^2 = 1 - sigma^2
    for kind, ids in path.hyps:
        if kind == 'unitq' and all(j in C.g for j in ids):
            lead = ids[3]; rest = ids[:3]
            if all(j in ctx.small for j in rest) and ctx.sigma is not None:
                ctx.angle.add(lead)
                ctx.cons.append("(= (+ (* n%d n%d) (* n%d n%d)) 1)" % (lead, lead, ctx.sigma, ctx.sigma))
    return ctx

def to_sigma(C, ctx, p):
    """Rewrite a polynomial that is a multiple of powers of |w|^2 (= inside of the sigma atom) in terms of sigma."""
    if ctx.sigma is None or not hasattr(ctx, 'inside'): return p
    k = 0
    while True:
        if support(C, p) <= ctx.angle: break
        q, r = p.div([ctx.inside])
        if r != 0: break
        p = q[0]; k += 1
    return p * C.g[ctx.sigma] ** (2 * k)

def zero_case(entry, path):
    """The path condition forces the small quantity to be exactly zero (e.g. Eigen normalized() taking its z>0-false branch)."""
    sm = {q for q, e in small_decisions(entry, path)}
    nodes = entry.nodes
    for (a, c, b, t) in path.decisions:
        if not t and c == 0 and nodes[a].op == 'const' and nodes[a].c == 0.0 and nodes[b].op not in ('const',):
            # not (0 < b)
            if b in sm or any(b in dagm.cone(nodes, [q]) or q in dagm.cone(nodes, [b]) for q in sm): return True
    return False

def alt_reduce(C, ctx, p):
    """Re-express p modulo sigma^2 = |w|^2 with the orientation  v*^2 -> sigma^2 - (other squares), so that powers of
    sigma stay visible in the coefficients (the canonical engine orients the rule the other way)."""
    if ctx.sigma is None or not hasattr(ctx, 'inside'): return p
    R = C.R; inside = ctx.inside
    vstar = None
    for mon, coef in inside.terms():
        nz = [(k, e) for k, e in enumerate(mon) if e]
        if len(nz) == 1 and nz[0][1] == 2 and coef == 1: vstar = nz[0][0]
    if vstar is None: return p
    gv = R.gens[vstar]
    repl = C.g[ctx.sigma] ** 2 - (inside - gv ** 2)
    for _ in range(40):
        by = {}
        high = False
        for mon, coef in p.terms():
            e = mon[vstar]
            if e >= 2: high = True
            m2 = list(mon); m2[vstar] = e % 2
            by.setdefault(e // 2, R(0))
            by[e // 2] = by[e // 2] + R({tuple(m2): coef})
        if not high: return p
        q = R(0)
        for k, pk in by.items():
            q = q + pk * repl ** k
        # sigma^2 must not be reduced back: only reduce with the other rules (trig, unit hyps)
        others = [gg for gg, src in zip(C.G, C.Gsrc) if not (src[0] == 'sqrt' and src[1] == ctx.sigma)]
        p = q.rem(others) if others else q
    return p

def support(C, p):
    s = set()
    for mon, coef in p.terms():
        for gi, e in zip(C.atoms, mon):
            if e: s.add(gi)
    return s

def enclosures(C, ctx):
    """Alternating-series enclosures of sin/cos/atan for arguments expressible in angle atoms, |arg| <= 1."""
    L = []
    for kk, A in C.trigargs.items():
        sc = C.trigbase.get(kk)
        if not sc or sc[0] is None or sc[1] is None: continue
        sv, cv = sc
        if not (len(sv[0]) == 1 and sv[1] == 1 and len(cv[0]) == 1 and cv[1] == 1): continue
        if not (support(C, A[0]) | support(C, A[1])) <= ctx.angle: continue
        a = C.rat_smt(A); s_ = C.poly_smt(sv[0]); c_ = C.poly_smt(cv[0])
        def pw(k): return "(* %s)" % ' '.join([a] * k)
        slo = "(+ %s (- (/ %s 6)) (/ %s 120) (- (/ %s 5040)))" % (a, pw(3), pw(5), pw(7))
        shi = "(+ %s (- (/ %s 6)) (/ %s 120))" % (a, pw(3), pw(5))
        clo = "(+ 1 (- (/ %s 2)) (/ %s 24) (- (/ %s 720)))" % (pw(2), pw(4), pw(6))
        chi = "(+ 1 (- (/ %s 2)) (/ %s 24))" % (pw(2), pw(4))
        L.append("(=> (and (<= 0 %s) (<= %s 1)) (and (<= %s %s) (<= %s %s)))" % (a, a, slo, s_, s_, shi))
        L.append("(=> (and (<= (- 1) %s) (<= %s 0)) (and (<= %s %s) (<= %s %s)))" % (a, a, shi, s_, s_, slo))
        L.append("(=> (and (<= (- 1) %s) (<= %s 1)) (and (<= %s %s) (<= %s %s)))" % (a, a, clo, c_, c_, chi))
        L.append("(= (+ (* %s %s) (* %s %s)) 1)" % (s_, s_, c_, c_))
    for at in getattr(ctx, 'atan_angle', []):
        y, x, r = C.atan[at]
        a = 'n%d' % at; s_ = C.rat_smt(C.divv(y, r)); c_ = C.rat_smt(C.divv(x, r))
        def pw(k): return "(* %s)" % ' '.join([a] * k)
        slo = "(+ %s (- (/ %s 6)) (/ %s 120) (- (/ %s 5040)))" % (a, pw(3), pw(5), pw(7)); shi = "(+ %s (- (/ %s 6)) (/ %s 120))" % (a, pw(3), pw(5))
        clo = "(+ 1 (- (/ %s 2)) (/ %s 24) (- (/ %s 720)))" % (pw(2), pw(4), pw(6)); chi = "(+ 1 (- (/ %s 2)) (/ %s 24))" % (pw(2), pw(4))
        L.append("(=> (and (<= 0 %s) (<= %s 1)) (and (<= %s %s) (<= %s %s)))" % (a, a, slo, s_, s_, shi))
        L.append("(=> (and (<= (- 1) %s) (<= %s 0)) (and (<= %s %s) (<= %s %s)))" % (a, a, shi, s_, s_, slo))
        L.append("(=> (and (<= (- 1) %s) (<= %s 1)) (and (<= %s %s) (<= %s %s)))" % (a, a, clo, c_, c_, chi))
    for at, v in C.atan.items():
        if v is None or at in getattr(ctx, 'atan_angle', []): continue
        y, x, r = v
        if not (support(C, y[0]) | support(C, y[1]) | support(C, x[0]) | support(C, x[1])) <= ctx.angle: continue
        ys, xs = C.rat_smt(y), C.rat_smt(x); al = 'n%d' % at
        z = "(/ %s %s)" % (ys, xs)
        z3_ = "(/ (* %s %s %s) 3)" % (z, z, z)
        L.append("(=> (and (> %s 0) (>= %s 0) (< %s %s)) (and (<= (- %s %s) %s) (<= %s %s)))" % (xs, ys, ys, xs, z, z3_, al, al, z))
        L.append("(=> (and (> %s 0) (<= %s 0) (< (- %s) %s)) (and (<= %s %s) (<= %s (- %s %s))))" % (xs, ys, ys, xs, z, al, al, z, z3_))
    return L

def decompose(C, ctx, N):
    """N = sum_m c_m * m : returns list of (rest-monomial exponents dict, coefficient poly over angle gens)"""
    groups = {}
    aidx = [k for k, a in enumerate(C.atoms) if a in ctx.angle]
    for mon, coef in N.terms():
        rest = tuple((C.atoms[k], e) for k, e in enumerate(mon) if e and C.atoms[k] not in ctx.angle)
        am = tuple(e if C.atoms[k] in ctx.angle else 0 for k, e in enumerate(mon))
        groups.setdefault(rest, []).append((am, coef))
    out = []
    for rest, terms in groups.items():
        p = C.R(0)
        for am, coef in terms:
            p = p + C.R({am: coef})
        out.append((dict(rest), p))
    return out

def trunc_path(entry, path, opts):
    """Decide the approx claims of one path. Returns result dict."""
    t0 = time.time()
    nodes = entry.nodes
    res = {'path': path.idx, 'claims': {}, 'queries': 0, 'queries_ok': 0, 'feasible': None, 'candidates': {}, 'notes': []}
    sm = small_decisions(entry, path)
    # reuse the EXACT machinery for canonical forms, feasibility, lemmas, side obligations
    class P2: pass
    p2 = P2(); p2.__dict__.update(path.__dict__)
    p2.claims = [('EQ', '__ap__' + nm, l, r) for (nm, l, r, cls) in path.approx]
    r = prove.prove_path(entry, p2, dict(opts, no_cex=True))
    C = r.pop('_C', None)
    for k in ('feasible', 'lemmas', 'lemmas_ok', 'side', 'side_ok', 'cf_error', 'lemma_fail', 'side_fail', 'axioms', 'cf_time'):
        if k in r: res[k] = r[k]
    if r.get('cf_error') or r.get('feasible') is False or C is None:
        res['time'] = time.time() - t0
        return res
    same = {nm[6:]: st for nm, st in r['claims'].items()}
    if not sm:
        # generic path: forced and normal runs must coincide exactly
        for (nm, l, rr, cls) in path.approx:
            res['claims'][nm] = 'proved-identical' if same.get(nm) == 'proved' else 'differs-on-generic-path'
        res['time'] = time.time() - t0
        return res
    if zero_case(entry, path):
        for (nm, l, rr, cls) in path.approx:
            res['claims'][nm] = 'proved-identical' if same.get(nm) == 'proved' else 'zero-case'
        res['notes'].append('rotation exactly zero on this path: generic formula is 0/0; covered by the EXACT zero-rotation entries')
        res['time'] = time.time() - t0
        return res
    try:
        ctx = analyse(C, entry, path)
    except ValueError as e:
        for (nm, l, rr, cls) in path.approx:
            res['claims'][nm] = 'proved-identical' if same.get(nm) == 'proved' else 'undecided'
        res['notes'].append('decomposition not applicable: %s' % e)
        res['time'] = time.time() - t0
        return res
    decl = ["(declare-fun n%d () Real)" % a for a in sorted(ctx.angle)]
    decl.append("(define-fun absr ((x Real)) Real (ite (>= x 0) x (- x)))")
    base = list(ctx.cons) + enclosures(C, ctx)
    for (a, c, b, t) in path.decisions:
        va, vb = C.val[a], C.val[b]
        sup = support(C, va[0]) | support(C, va[1]) | support(C, vb[0]) | support(C, vb[1])
        if sup and sup <= ctx.angle: base.append(prove.cmp_smt(C, a, c, b, t))
    pre = decl + ["(assert %s)" % x for x in base]
    checks = []; meta = {}
    boxes = opts.get('boxes', (1, 10 ** 6))
    for (nm, l, rr, cls) in path.approx:
        if same.get(nm) == 'proved':
            res['claims'][nm] = 'proved-identical'; continue
        d = C.subv(C.val[l], C.val[rr])
        N, D = d
        D = to_sigma(C, ctx, D)
        N = alt_reduce(C, ctx, N)
        if not support(C, D) <= ctx.angle:
            res['claims'][nm] = 'undecided'; res['notes'].append('%s: denominator depends on non-angle variables' % nm); continue
        parts = decompose(C, ctx, N)
        bad = [m for m, c in parts if any(nodes[v].op != 'var' for v in m)]
        if bad:
            res['claims'][nm] = 'undecided'; res['notes'].append('%s: non-variable atom outside the angle set' % nm); continue
        Ds = C.poly_smt(D)
        # one query per monomial: |c_m| * sigma^a <= (tol/#m) * |D|   (the box enters only through B^b afterwards)
        tol = TOL[cls]; share = tol / len(parts)
        bmax = 0
        for k, (m, cpoly) in enumerate(parts):
            fac = []; b = 0
            for v, e in m.items():
                if v in ctx.small: fac += ['n%d' % ctx.small[v]] * e
                else: b += e
            bmax = max(bmax, b)
            bound = "(* %s)" % ' '.join(['1'] + fac)
            checks.append(('%s|%d' % (nm, k), ["(> (* (absr %s) %s) (* %s (absr %s)))" % (C.poly_smt(cpoly), bound, smt.rat(share), Ds)]))
        meta[nm] = (len(parts), cls, bmax)
    rs = smt.run_checks(pre, checks, per_check_ms=opts.get('trunc_ms', 20000), jobs=opts.get('trunc_jobs', 12), tactic='qfnra-nlsat', chunk=12)
    res['queries'] = len(checks); res['queries_ok'] = sum(1 for v in rs.values() if v[0] == 'unsat')
    byclaim = {}
    for lab, _ in checks:
        nm = lab.split('|')[0]
        byclaim.setdefault(nm, []).append(rs[lab][0])
    for nm, lst in byclaim.items():
        if all(x == 'unsat' for x in lst): res['claims'][nm] = 'proved-bound'
        elif any(x == 'sat' for x in lst): res['claims'][nm] = 'bound-refuted'
        else: res['claims'][nm] = 'undecided'
    # magnitude hints from the solver's models of refuted bounds (sat-side: where to look for a concrete counterexample)
    refuted = [(lab, a) for (lab, a) in checks if rs[lab][0] == 'sat'][:3]
    if refuted and ctx.sigma is not None:
        rm = smt.run_checks(pre, refuted, per_check_ms=opts.get('trunc_ms', 20000), jobs=3, tactic='qfnra-nlsat', models=True)
        hints = []
        for lab, _ in refuted:
            m = smt.parse_model(rm[lab][1]) if rm[lab][0] == 'sat' else {}
            v = m.get('n%d' % ctx.sigma)
            if v is not None: hints.append(float(v))
        res['sigma_hints'] = hints
    res['monomials'] = {nm: {'monomials': v[0], 'box_degree': v[2]} for nm, v in meta.items()}
    res['time'] = time.time() - t0
    return res

# ---------------------------------------------------------------------------
def region_points(entry, path, n, seed, boxes=(1, 10 ** 6), hints=()):
    """Sample points of the Taylor region of this path (sat-side helper)."""
    import mpmath as mp
    mp.mp.dps = 60
    rnd = random.Random(seed)
    nodes = entry.nodes
    sm = small_decisions(entry, path)
    ids = [x for (nm, l, r, cls) in path.approx for x in (l, r)] + [x for d in path.decisions for x in (d[0], d[2])]
    allvars = sorted(i for i in dagm.cone(nodes, ids) if nodes[i].op == 'var')
    smallvars = set()
    for q, epsv in sm:
        smallvars |= {i for i in dagm.cone(nodes, [q]) if nodes[i].op == 'var'}
    inq = {}
    for kind, ids_ in path.hyps:
        for j in ids_: inq[j] = (kind, ids_)
    pts = []
    mags = [mp.mpf(h) * f for h in hints for f in (1, mp.mpf('0.999'), mp.mpf('0.9'))] + [mp.mpf('1.48e-7'), mp.mpf('1.0e-7'), mp.mpf('1e-8'), mp.mpf('1e-10'), mp.mpf('2.7e-5'), mp.mpf('1e-5'), mp.mpf('1e-6')]
    for k in range(n):
        mag = mags[k % len(mags)]; B = boxes[(k // len(mags)) % len(boxes)]
        asg = {}; done = set()
        for v in allvars:
            if v in done: continue
            if v in inq:
                kind, ids_ = inq[v]
                if kind == 'unitq':
                    d = [mp.mpf(rnd.uniform(-1, 1)) for _ in range(3)]
                    nrm = mp.sqrt(sum(x * x for x in d))
                    sv = all(j in smallvars for j in ids_[:3])
                    vec = [x / nrm * (mag if sv else mp.mpf(rnd.uniform(0.1, 0.9))) for x in d]
                    w = mp.sqrt(1 - sum(x * x for x in vec))
                    if nodes[ids_[3]].w < 0 or k % 2: w = -w
                    for j, x in zip(ids_, vec + [w]): asg[j] = x
                else:
                    ang = mag * rnd.choice((-1, 1)) if (ids_[1] in smallvars or ids_[0] in smallvars) else mp.mpf(rnd.uniform(-3, 3))
                    asg[ids_[0]] = mp.cos(ang); asg[ids_[1]] = mp.sin(ang)
                done.update(ids_)
            elif v in smallvars:
                asg[v] = mp.mpf(rnd.uniform(-1, 1)); done.add(v)
            else:
                asg[v] = mp.mpf(rnd.uniform(-1, 1)) * B; done.add(v)
        # scale the small plain variables jointly to the target magnitude
        sv = [v for v in allvars if v in smallvars and v not in inq]
        if sv:
            nrm = mp.sqrt(sum(asg[v] ** 2 for v in sv))
            for v in sv: asg[v] = asg[v] / nrm * mag
        pts.append(asg)
    return pts

def numeric_check(entry, path, names, n=42, seed=0, hints=(), degrees=None):
    """Evaluate |taylor - generic| in 60-digit arithmetic at points of the region. Returns {name: (asg, lv, rv, tol)} for exceedances, and #points in region."""
    import mpmath as mp
    nodes = entry.nodes
    ap = {nm: (l, r, cls) for (nm, l, r, cls) in path.approx}
    found = {}; npc = 0
    ids = [x for nm in names for x in ap[nm][:2]] + [x for d in path.decisions for x in (d[0], d[2])]
    for asg in region_points(entry, path, n + 6 * len(hints), seed, hints=hints):
        try: val = dagm.numeval(nodes, ids, asg, mp)
        except Exception: continue
        ok = True
        for (a, c, b, t) in path.decisions:
            tv = {0: val[a] < val[b], 1: val[a] <= val[b], 2: val[a] == val[b]}[c]
            if bool(tv) != bool(t): ok = False; break
        if not ok: continue
        npc += 1
        scale = max([1] + [abs(v) for k, v in asg.items()])
        for nm in names:
            if nm in found: continue
            l, r, cls = ap[nm]
            lv, rv = val[l], val[r]
            if mp.isnan(lv) or mp.isnan(rv): continue
            tol = float(TOL[cls]) * float(scale) ** max(1, (degrees or {}).get(nm, 1))   # same scaling as the solver bound: tol * max(1,B)^(degree in the box variables)
            if abs(lv - rv) > tol: found[nm] = (asg, float(lv), float(rv), tol)
    return found, npc
