#!/opt/veriftools/pyvenv/bin/python
"""Entry point of every check: check.py <property id> [--tier quick|thorough]"""
import sys, os, argparse, importlib
sys.path.insert(0, os.path.dirname(os.path.abspath(__file__)))

def main():
    ap = argparse.ArgumentParser()
    ap.add_argument('pid'); ap.add_argument('--tier', default=os.environ.get('VERIF_TIER', 'quick'))
    ap.add_argument('--only', default=None, help='regex on spec labels / entry names (debugging)')
    a = ap.parse_args()
    mod = importlib.import_module('props.' + a.pid.lower())
    sys.exit(mod.run(a.tier, a))

if __name__ == '__main__':
    main()
